#!/usr/bin/env python3
"""mkmut.py NAME FILE OLD NEW [FILE OLD NEW ...] -> writes /verif/mutants/NAME.diff
Builds a unified diff against /repo's working tree by exact string replacement
(OLD must occur exactly once in FILE; several edits of one FILE accumulate).
/repo itself is not touched."""
import sys, difflib, os, collections
name = sys.argv[1]
args = sys.argv[2:]
assert len(args) % 3 == 0, "need FILE OLD NEW triples"
orig, cur = {}, collections.OrderedDict()
for i in range(0, len(args), 3):
    f, old, new = args[i], args[i+1], args[i+2]
    if f not in cur:
        orig[f] = cur[f] = open(os.path.join('/repo', f)).read()
    assert cur[f].count(old) == 1, (f, old, cur[f].count(old))
    cur[f] = cur[f].replace(old, new)
out = []
for f in cur:
    out += list(difflib.unified_diff(orig[f].splitlines(True), cur[f].splitlines(True), 'a/'+f, 'b/'+f))
open('/verif/mutants/%s.diff' % name, 'w').write(''.join(out))
print('wrote', name, len(out), 'lines')
