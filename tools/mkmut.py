#!/usr/bin/env python3
"""mkmut.py NAME FILE OLD NEW [FILE OLD NEW ...] -> writes /verif/mutants/NAME.diff
Builds a unified diff against /repo's working tree by exact string replacement
(OLD must occur exactly once in FILE). /repo itself is not touched."""
import sys, difflib, os
name = sys.argv[1]
args = sys.argv[2:]
out = []
for i in range(0, len(args), 3):
    f, old, new = args[i], args[i+1], args[i+2]
    old = old.encode().decode('unicode_escape') if '\\n' in old or '\\t' in old else old
    new = new.encode().decode('unicode_escape') if '\\n' in new or '\\t' in new else new
    s = open(os.path.join('/repo', f)).read()
    assert s.count(old) == 1, (f, old, s.count(old))
    t = s.replace(old, new)
    out += list(difflib.unified_diff(s.splitlines(True), t.splitlines(True), 'a/'+f, 'b/'+f))
open('/verif/mutants/%s.diff' % name, 'w').write(''.join(out))
print('wrote', name, len(out), 'lines')
