#!/bin/bash
# ingest_seed.sh <PROP> <name>: verify a sub-agent's seeded change in its scratch
# worktree /tmp/seed/<PROP> and store it as /verif/seeded/<PROP>__<name>/
set -u
export GOFLAGS=-mod=mod GOPROXY=off GOSUMDB=off GOTOOLCHAIN=local
P=$1; NAME=$2; W=/tmp/seed/$P; D=/verif/seeded/${P}__${NAME}
cd $W || exit 1
git checkout -q -- supported_mimes.md 2>/dev/null
mkdir -p $D
git diff > $D/patch.diff
[ -s $D/patch.diff ] || { echo "empty diff"; exit 1; }
DEMO=$(git ls-files --others --exclude-standard | grep -E 'zz_seed_demo.*_test.go$' | head -1)
[ -n "$DEMO" ] || { echo "no demo"; exit 1; }
cp $DEMO $D/$(basename $DEMO); echo "$DEMO" > $D/demo_path.txt
[ -f SEED.md ] && cp SEED.md $D/SEED.md
PKG=./$(dirname $DEMO)
# 1. suite with the change, demo moved aside
mv $DEMO /tmp/seed/$P.demo.keep
SUITE=$(go test -vet=off -count=1 ./... 2>&1 | tail -5); SUITE_OK=$?
echo "$SUITE" | grep -q FAIL && SUITE_OK=1 || SUITE_OK=0
git checkout -q -- supported_mimes.md 2>/dev/null
mv /tmp/seed/$P.demo.keep $DEMO
# 2. demo with the change
RACE=""; grep -q "race" SEED.md 2>/dev/null && grep -qi "go test.*-race" SEED.md && RACE="-race"
WITH=$(go test -vet=off -count=1 $RACE -run 'Seed' $PKG 2>&1 | tail -15); echo "$WITH" | grep -qE "^(--- FAIL|FAIL|panic)|DATA RACE" && WITH_FAIL=1 || WITH_FAIL=0
# 3. demo without the change
git apply -R $D/patch.diff
WITHOUT=$(go test -vet=off -count=1 $RACE -run 'Seed' $PKG 2>&1 | tail -5); echo "$WITHOUT" | grep -qE "^ok" && WITHOUT_OK=1 || WITHOUT_OK=0
git apply $D/patch.diff
git checkout -q -- supported_mimes.md 2>/dev/null
python3 - "$D" "$P" "$NAME" "$SUITE_OK" "$WITH_FAIL" "$WITHOUT_OK" "$RACE" <<'PY'
import json,sys,os
d,p,name,suite,withf,without,race=sys.argv[1:8]
meta={"property":p,"name":name,"origin":"independent sub-agent given only the property text and its own scratch worktree of /repo (nothing from /verif)",
 "suite_passes_with_change": suite=="0","demo_fails_with_change": withf=="1","demo_passes_without_change": without=="1",
 "ran":["go test -vet=off -count=1 ./...  (change applied, demo moved aside)","go test -vet=off -count=1 %s -run Seed <pkg>  (with the change: must fail)"%race,"git stash the changed files; same command (must pass); git stash pop"],
 "needs_to_manifest":"see SEED.md","checks_result":"filled in by tools/ingest_seed.sh after running vcheck selftest"}
json.dump(meta,open(os.path.join(d,"meta.json"),"w"),indent=1)
print(json.dumps({k:meta[k] for k in ("suite_passes_with_change","demo_fails_with_change","demo_passes_without_change")}))
PY
