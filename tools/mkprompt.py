#!/usr/bin/env python3
"""mkprompt.py <PROP> <out>: seeding prompt for a fresh sub-agent (property text only + list of used ideas)."""
import sys, os, re, glob
prop, out = sys.argv[1], sys.argv[2]
base = open(f'/tmp/seed/{prop}.prompt8.txt').read()
labels = []
for d in sorted(glob.glob('/verif/seeded/*__*')) + sorted(glob.glob('/verif/mutants/*__*.diff')):
    n = os.path.basename(d).replace('.diff', '')
    props, name = n.split('__', 1)
    if prop in props.split('+'):
        labels.append(name.replace('-', ' '))
head, rest = base.split('have already been produced for this property:\n', 1)
_, tail = rest.split('and these mechanisms have been used repeatedly', 1)
new = head + 'have already been produced for this property:\n' + ''.join(f'  - {l}\n' for l in labels) + 'and these mechanisms have been used repeatedly' + tail
extra = ("  - treating a zero-byte read (0, nil) as end of input\n"
         "  - fast paths in the MIME string normaliser (Is / EqualsAny)\n"
         "  - early returns for empty input\n")
new = new.replace("  - Extend rewriting or copying its alias slice\n", "  - Extend rewriting or copying its alias slice\n" + extra)
open(out, 'w').write(new)
