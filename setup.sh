#!/bin/sh
# Builds the vcheck driver (standard library only, offline) and warms the Go
# build cache with the worker variants.
set -e
cd "$(dirname "$0")"
export GOFLAGS=-mod=mod GOPROXY=off GOSUMDB=off GOTOOLCHAIN=local
mkdir -p bin evidence
(cd cmd/vcheck && go build -o ../../bin/vcheck .)
./bin/vcheck build
