module verif/vcheck

go 1.23
