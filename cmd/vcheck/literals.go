package main

import (
	"encoding/hex"
	"encoding/json"
	"go/ast"
	"go/parser"
	"go/token"
	"os"
	"path/filepath"
	"sort"
	"strconv"
	"strings"
)

// writeLiterals extracts every string and []byte literal from the non-test
// sources of the packages under test (the byte strings the detectors compare
// against or search for) and writes them, hex encoded, to dir/literals.json.
// The checks use them as a dictionary that closes the input alphabets over the
// code's own constants; it is regenerated from the working tree on every run.
func writeLiterals(dir string) error {
	seen := map[string]bool{}
	add := func(b []byte) {
		if len(b) >= 2 && len(b) <= 96 {
			seen[string(b)] = true
		}
	}
	for _, pkg := range []string{".", "internal/json", "internal/magic", "internal/charset"} {
		ents, err := os.ReadDir(filepath.Join(repo(), pkg))
		if err != nil {
			return err
		}
		for _, e := range ents {
			n := e.Name()
			if e.IsDir() || !strings.HasSuffix(n, ".go") || strings.HasSuffix(n, "_test.go") {
				continue
			}
			fset := token.NewFileSet()
			f, err := parser.ParseFile(fset, filepath.Join(repo(), pkg, n), nil, 0)
			if err != nil {
				continue // the build step reports syntax errors
			}
			ast.Inspect(f, func(nd ast.Node) bool {
				switch x := nd.(type) {
				case *ast.ImportSpec:
					return false
				case *ast.BasicLit:
					if x.Kind == token.STRING {
						if s, err := strconv.Unquote(x.Value); err == nil {
							add([]byte(s))
						}
					}
				case *ast.CompositeLit:
					// []byte{0x.., 'c', ...}
					at, ok := x.Type.(*ast.ArrayType)
					if !ok && x.Type != nil {
						return true
					}
					if ok {
						if id, isID := at.Elt.(*ast.Ident); !isID || id.Name != "byte" {
							return true
						}
					}
					var b []byte
					for _, el := range x.Elts {
						bl, ok := el.(*ast.BasicLit)
						if !ok {
							return true
						}
						switch bl.Kind {
						case token.INT:
							v, err := strconv.ParseUint(bl.Value, 0, 8)
							if err != nil {
								return true
							}
							b = append(b, byte(v))
						case token.CHAR:
							r, _, _, err := strconv.UnquoteChar(strings.Trim(bl.Value, "'"), '\'')
							if err != nil || r > 255 {
								return true
							}
							b = append(b, byte(r))
						default:
							return true
						}
					}
					add(b)
				}
				return true
			})
		}
	}
	var out []string
	for s := range seen {
		out = append(out, hex.EncodeToString([]byte(s)))
	}
	sort.Strings(out)
	b, _ := json.Marshal(out)
	return os.WriteFile(filepath.Join(dir, "literals.json"), b, 0o644)
}
