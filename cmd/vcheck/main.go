// Command vcheck is the driver of the mimetype verification framework.
//
//	vcheck <property> [--tier quick|thorough] [--workers N] [--budget D]
//	vcheck <property> --replay <file>
//	vcheck build            (pre-build the workers, used by setup.sh)
//
// For every run it regenerates a `go build -overlay` description from the
// *current working tree* of the repository under test (VERIF_REPO, default
// /repo), builds the worker inside that module with the build tag `verif`,
// forks the worker processes (parallelism is by process because SetLimit and
// Extend are process-global), merges their results, applies the known-findings
// file and writes evidence/<id>.json.
package main

import (
	"bytes"
	"encoding/json"
	"flag"
	"fmt"
	"os"
	"os/exec"
	"path/filepath"
	"regexp"
	"sort"
	"strconv"
	"strings"
	"sync"
	"time"
)

type checkCfg struct {
	Shim          bool // rewrite sync / sync/atomic imports to the scheduler shim
	Race          bool // additionally build a -race worker (C06 part B)
	Workers       int  // 0 = default (16)
	QuickBudget   time.Duration
	ThoroughBudge time.Duration
	Assumptions   []string
	Rule          string
}

const modPath = "github.com/gabriel-vasile/mimetype"

var baseAssume = []string{
	"the Go toolchain, runtime and standard library (encoding/json, encoding/csv, archive/zip, archive/tar, unicode/utf8, mime) and x/net/html are trusted as oracles / writers",
	"linux/amd64, 64-bit int; 32-bit overflow behaviour is not explored",
	"behaviour outside the stated alphabets and bounds is not covered",
}

// home is the verification tree this binary belongs to: $VERIF_HOME, else the
// parent of the directory holding the executable (so that a snapshot of /verif
// is self-contained), else /verif.
func home() string {
	if h := os.Getenv("VERIF_HOME"); h != "" {
		return h
	}
	if exe, err := os.Executable(); err == nil {
		d := filepath.Dir(filepath.Dir(exe))
		if _, err := os.Stat(filepath.Join(d, "harness")); err == nil {
			return d
		}
	}
	return "/verif"
}
func repo() string {
	if h := os.Getenv("VERIF_REPO"); h != "" {
		return h
	}
	return "/repo"
}

func goEnv() []string {
	env := os.Environ()
	env = append(env, "GOFLAGS=-mod=mod", "GOPROXY=off", "GOSUMDB=off", "GOTOOLCHAIN=local", "CGO_ENABLED=1")
	return env
}

// genOverlay writes the overlay description for a build and returns its path.
func genOverlay(dir string, shim bool) (string, error) {
	h, r := home(), repo()
	replace := map[string]string{}
	// virtual packages internal/verifx/...
	err := filepath.Walk(filepath.Join(h, "harness"), func(p string, info os.FileInfo, err error) error {
		if err != nil || info.IsDir() || !strings.HasSuffix(p, ".go") {
			return err
		}
		rel, _ := filepath.Rel(filepath.Join(h, "harness"), p)
		if strings.HasPrefix(rel, "hook"+string(filepath.Separator)) {
			replace[filepath.Join(r, filepath.Base(p))] = p
			return nil
		}
		replace[filepath.Join(r, "internal", "verifx", rel)] = p
		return nil
	})
	if err != nil {
		return "", err
	}
	if shim {
		// rewrite "sync" and "sync/atomic" imports of the packages under test
		rw := filepath.Join(dir, "rewritten")
		os.RemoveAll(rw)
		for _, pkg := range []string{".", "internal/json", "internal/magic", "internal/charset"} {
			ents, err := os.ReadDir(filepath.Join(r, pkg))
			if err != nil {
				return "", err
			}
			for _, e := range ents {
				n := e.Name()
				if e.IsDir() || !strings.HasSuffix(n, ".go") || strings.HasSuffix(n, "_test.go") {
					continue
				}
				src := filepath.Join(r, pkg, n)
				b, err := os.ReadFile(src)
				if err != nil {
					return "", err
				}
				nb := rewriteSync(b)
				if bytes.Equal(nb, b) {
					continue
				}
				dst := filepath.Join(rw, pkg, n)
				os.MkdirAll(filepath.Dir(dst), 0o755)
				if err := os.WriteFile(dst, nb, 0o644); err != nil {
					return "", err
				}
				replace[src] = dst
			}
		}
	}
	b, _ := json.MarshalIndent(map[string]any{"Replace": replace}, "", " ")
	p := filepath.Join(dir, "overlay.json")
	return p, os.WriteFile(p, b, 0o644)
}

var reSync = regexp.MustCompile(`(?m)^(\s*)(import\s+)?(\w+\s+)?"sync"\s*$`)
var reAtomic = regexp.MustCompile(`(?m)^(\s*)(import\s+)?(\w+\s+)?"sync/atomic"\s*$`)

// rewriteSync redirects the two imports to the shim packages, keeping the
// package names `sync` and `atomic` so that no other line changes.
func rewriteSync(b []byte) []byte {
	b = reSync.ReplaceAllFunc(b, func(m []byte) []byte {
		sm := reSync.FindSubmatch(m)
		alias := strings.TrimSpace(string(sm[3]))
		if alias == "" {
			alias = "sync"
		}
		return []byte(string(sm[1]) + string(sm[2]) + alias + ` "` + modPath + `/internal/verifx/vsync"`)
	})
	b = reAtomic.ReplaceAllFunc(b, func(m []byte) []byte {
		sm := reAtomic.FindSubmatch(m)
		alias := strings.TrimSpace(string(sm[3]))
		if alias == "" {
			alias = "atomic"
		}
		return []byte(string(sm[1]) + string(sm[2]) + alias + ` "` + modPath + `/internal/verifx/vatomic"`)
	})
	return b
}

func build(dir string, shim, race bool) (string, error) {
	os.MkdirAll(dir, 0o755)
	ov, err := genOverlay(dir, shim)
	if err != nil {
		return "", err
	}
	if err := writeLiterals(dir); err != nil {
		return "", err
	}
	out := filepath.Join(dir, "worker")
	args := []string{"build", "-overlay", ov, "-tags", "verif", "-o", out}
	if race {
		out = filepath.Join(dir, "worker-race")
		args = []string{"build", "-race", "-overlay", ov, "-tags", "verif", "-o", out}
	}
	args = append(args, "./internal/verifx/worker")
	cmd := exec.Command("go", args...)
	cmd.Dir = repo()
	cmd.Env = goEnv()
	var eb bytes.Buffer
	cmd.Stderr = &eb
	cmd.Stdout = &eb
	if err := cmd.Run(); err != nil {
		return "", fmt.Errorf("build of worker failed (the tree under test or the harness does not compile):\n%s", eb.String())
	}
	return out, nil
}

type violation struct {
	Property string `json:"property"`
	Sig      string `json:"sig"`
	Msg      string `json:"msg"`
	Replay   string `json:"replay"`
	Count    uint64 `json:"count"`
}

type result struct {
	Property    string            `json:"property"`
	Shard       int               `json:"shard"`
	States      uint64            `json:"states"`
	Transitions uint64            `json:"transitions"`
	Evals       uint64            `json:"evaluations"`
	Traces      uint64            `json:"traces"`
	Nontrivial  uint64            `json:"nontrivial"`
	Samples     []any             `json:"samples"`
	Violations  []*violation      `json:"violations"`
	Caps        []string          `json:"caps"`
	Notes       map[string]uint64 `json:"notes"`
	Info        map[string]string `json:"info"`
	Flaky       []string          `json:"flaky"`
	Fatal       string            `json:"fatal"`
}

type knownFinding struct {
	Property string
	Re       *regexp.Regexp
	Text     string
}

// loadKnown parses known_findings.txt. Lines:
//
//	known: property=<id> sig=<regexp> <what fails>
//	fixed: property=<id> <commit> <what failed>       (suppresses nothing)
func loadKnown() []knownFinding {
	b, err := os.ReadFile(filepath.Join(home(), "known_findings.txt"))
	if err != nil {
		return nil
	}
	var out []knownFinding
	for _, l := range strings.Split(string(b), "\n") {
		l = strings.TrimSpace(l)
		if !strings.HasPrefix(l, "known:") {
			continue
		}
		f := strings.Fields(l)
		if len(f) < 3 || !strings.HasPrefix(f[1], "property=") || !strings.HasPrefix(f[2], "sig=") {
			continue
		}
		re, err := regexp.Compile("^(?:" + strings.TrimPrefix(f[2], "sig=") + ")$")
		if err != nil {
			continue
		}
		out = append(out, knownFinding{strings.TrimPrefix(f[1], "property="), re, strings.Join(f[3:], " ")})
	}
	return out
}

func main() {
	if len(os.Args) < 2 {
		fmt.Fprintln(os.Stderr, "usage: vcheck <property>|build|selftest [flags]")
		os.Exit(2)
	}
	switch os.Args[1] {
	case "build":
		os.Exit(cmdBuild())
	case "selftest":
		os.Exit(cmdSelftest(os.Args[2:]))
	}
	prop := os.Args[1]
	cfg, ok := configs[prop]
	if !ok {
		fmt.Fprintf(os.Stderr, "unknown property %s\n", prop)
		os.Exit(2)
	}
	fs := flag.NewFlagSet("vcheck", flag.ExitOnError)
	tier := fs.String("tier", envOr("VERIF_TIER", "quick"), "quick|thorough")
	workers := fs.Int("workers", 0, "worker processes")
	budget := fs.Duration("budget", 0, "override internal deadline")
	replay := fs.String("replay", "", "replay a recorded violation")
	noEvidence := fs.Bool("no-evidence", false, "do not write the evidence file (selftest)")
	fs.Parse(os.Args[2:])
	if *tier != "quick" && *tier != "thorough" {
		*tier = "quick"
	}
	seed, _ := strconv.Atoi(os.Getenv("VERIF_SEED"))
	if seed < 0 {
		seed = -seed
	}
	os.Exit(runCheck(prop, cfg, *tier, *workers, *budget, *replay, seed, !*noEvidence))
}

func envOr(k, d string) string {
	if v := os.Getenv(k); v != "" {
		return v
	}
	return d
}

func buildDir(prop string) string {
	tag := "main"
	if r := repo(); r != "/repo" {
		tag = strings.NewReplacer("/", "_").Replace(r)
	}
	return filepath.Join(home(), ".build", prop+"-"+tag)
}

func cmdBuild() int {
	// warm the build cache: plain worker, shim worker, race worker
	d := filepath.Join(home(), ".build", "warm")
	for _, v := range []struct{ shim, race bool }{{false, false}, {true, false}, {true, true}} {
		if _, err := build(d, v.shim, v.race); err != nil {
			fmt.Fprintln(os.Stderr, err)
			return 1
		}
	}
	fmt.Println("workers built")
	return 0
}

func runCheck(prop string, cfg checkCfg, tier string, workers int, budget time.Duration, replay string, seed int, writeEvidence bool) int {
	start := time.Now()
	dir := buildDir(prop)
	bin, err := build(dir, cfg.Shim, false)
	if err != nil {
		fmt.Fprintln(os.Stderr, err)
		// a tree that does not compile is not a property violation; it is an error
		return 2
	}
	if cfg.Race {
		if _, err := build(dir, cfg.Shim, true); err != nil {
			fmt.Fprintln(os.Stderr, err)
			return 2
		}
	}
	replayDir := filepath.Join(home(), "replays", prop)
	if repo() != "/repo" {
		replayDir = filepath.Join(dir, "replays")
	}
	common := []string{"--tier", tier, "--home", home(), "--repo", repo(), "--replaydir", replayDir, "--seed", strconv.Itoa(seed)}
	if replay != "" {
		cmd := exec.Command(bin, append([]string{prop, "--replay", replay}, common...)...)
		cmd.Env = append(os.Environ(), "VERIF_WORKER_DIR="+dir)
		cmd.Stdout, cmd.Stderr = os.Stdout, os.Stderr
		if err := cmd.Run(); err != nil {
			if ee, ok := err.(*exec.ExitError); ok {
				return ee.ExitCode()
			}
			return 2
		}
		return 0
	}
	if workers == 0 {
		workers = cfg.Workers
	}
	if workers == 0 {
		workers = 16
	}
	if budget == 0 {
		budget = cfg.QuickBudget
		if tier == "thorough" {
			budget = cfg.ThoroughBudge
		}
		if budget == 0 {
			budget = 120 * time.Second
		}
	}
	os.RemoveAll(replayDir)
	results := make([]*result, workers)
	var wg sync.WaitGroup
	for k := 0; k < workers; k++ {
		wg.Add(1)
		go func(k int) {
			defer wg.Done()
			out := filepath.Join(dir, fmt.Sprintf("out.%d.json", k))
			os.Remove(out)
			args := append([]string{prop, "--shard", strconv.Itoa(k), "--nshards", strconv.Itoa(workers), "--out", out, "--budget", budget.String()}, common...)
			cmd := exec.Command(bin, args...)
			cmd.Env = append(os.Environ(), "VERIF_WORKER_DIR="+dir, "GOMAXPROCS=2")
			var eb bytes.Buffer
			cmd.Stderr = &eb
			cmd.Stdout = &eb
			err := cmd.Run()
			r := &result{}
			if b, rerr := os.ReadFile(out); rerr == nil {
				json.Unmarshal(b, r)
			} else {
				r.Fatal = fmt.Sprintf("worker %d produced no result: %v\n%s", k, err, tail(eb.String(), 4000))
			}
			if err != nil && r.Fatal == "" {
				r.Fatal = fmt.Sprintf("worker %d exited with %v\n%s", k, err, tail(eb.String(), 4000))
			}
			results[k] = r
		}(k)
	}
	wg.Wait()

	// merge
	m := &result{Property: prop, Notes: map[string]uint64{}, Info: map[string]string{}}
	capset := map[string]bool{}
	bySig := map[string]*violation{}
	var sigs []string
	fatal := ""
	for _, r := range results {
		m.States += r.States
		m.Transitions += r.Transitions
		m.Evals += r.Evals
		m.Traces += r.Traces
		m.Nontrivial += r.Nontrivial
		for _, s := range r.Samples {
			if len(m.Samples) < 16 {
				m.Samples = append(m.Samples, s)
			}
		}
		for _, c := range r.Caps {
			capset[c] = true
		}
		for k, v := range r.Notes {
			m.Notes[k] += v
		}
		for k, v := range r.Info {
			m.Info[k] = v
		}
		m.Flaky = append(m.Flaky, r.Flaky...)
		for _, v := range r.Violations {
			if o := bySig[v.Sig]; o != nil {
				o.Count += v.Count
			} else {
				bySig[v.Sig] = v
				sigs = append(sigs, v.Sig)
			}
		}
		if r.Fatal != "" && fatal == "" {
			fatal = r.Fatal
		}
	}
	sort.Strings(sigs)
	known := loadKnown()
	nviol, nknown := 0, 0
	for _, s := range sigs {
		v := bySig[s]
		matched := false
		for _, k := range known {
			if k.Property == prop && k.Re.MatchString(v.Sig) {
				fmt.Printf("KNOWN-FINDING: property=%s %s (sig=%s, %d cases this run, e.g. replay=%s)\n", prop, k.Text, v.Sig, v.Count, v.Replay)
				matched = true
				nknown++
				break
			}
		}
		if !matched {
			nviol++
			fmt.Printf("VIOLATION property=%s replay=%s\n", prop, v.Replay)
			fmt.Printf("  sig=%s cases=%d\n  %s\n", v.Sig, v.Count, strings.ReplaceAll(v.Msg, "\n", "\n  "))
		}
	}
	for _, c := range sortedKeys(capset) {
		m.Caps = append(m.Caps, c)
	}
	exhaustive := len(m.Caps) == 0 && fatal == ""
	wall := time.Since(start).Seconds()

	if fatal != "" {
		fmt.Fprintf(os.Stderr, "ERROR: %s\n", fatal)
	}
	for _, f := range m.Flaky {
		fmt.Fprintf(os.Stderr, "NOTE (not reported, failed to reproduce 5/5): %s\n", f)
	}

	if writeEvidence {
		if len(m.Samples) == 0 {
			m.Samples = []any{"(no sample recorded)"}
		}
		cov := map[string]any{
			"states": m.States, "transitions": m.Transitions,
			"traces_validated_against_impl": m.Traces,
			"evaluations":                   m.Evals, "distinct_nontrivial": m.Nontrivial,
			"rule": cfg.Rule, "samples": m.Samples, "exhaustive": exhaustive,
			"caps_hit": m.Caps, "notes": m.Notes, "space": m.Info,
			"workers": workers, "known_findings_matched": nknown,
			"model_binding": "stateless exploration of the implementation itself: every enumerated behaviour is executed on the code built from the repository working tree and compared with the reference model, so every trace is validated against the implementation",
		}
		ev := map[string]any{
			"property_id": prop, "tier": tier, "seed": seed, "level": "model_checking",
			"coverage": cov, "assumptions": append(append([]string{}, baseAssume...), cfg.Assumptions...),
			"wall_s": wall, "violations": nviol,
		}
		b, _ := json.MarshalIndent(ev, "", " ")
		os.MkdirAll(filepath.Join(home(), "evidence"), 0o755)
		if err := os.WriteFile(filepath.Join(home(), "evidence", prop+".json"), b, 0o644); err != nil {
			fmt.Fprintln(os.Stderr, err)
			return 2
		}
	}
	fmt.Printf("%s tier=%s states=%d transitions=%d traces=%d nontrivial=%d violations=%d known=%d exhaustive=%v caps=%v wall=%.1fs\n",
		prop, tier, m.States, m.Transitions, m.Traces, m.Nontrivial, nviol, nknown, exhaustive, m.Caps, wall)
	if nviol > 0 {
		return 1
	}
	if fatal != "" {
		return 2
	}
	return 0
}

func sortedKeys(m map[string]bool) []string {
	var out []string
	for k := range m {
		out = append(out, k)
	}
	sort.Strings(out)
	return out
}

func tail(s string, n int) string {
	if len(s) > n {
		return s[len(s)-n:]
	}
	return s
}
