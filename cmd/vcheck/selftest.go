package main

import (
	"bytes"
	"fmt"
	"os"
	"os/exec"
	"path/filepath"
	"sort"
	"strings"
	"sync"
)

// cmdSelftest demonstrates detection: every mutants/<PROPS>__<name>.diff is a
// realistic property-breaking change. For each one a scratch git worktree of
// the repository is created outside /repo and /verif, the diff applied, the
// repository's own test-suite run on it (it must still pass, otherwise the
// mutant is marked "suite-kills" and is not evidence of anything), and the
// quick check of each property named in the file name is run against the
// scratch tree: it must exit 1 with a VIOLATION line. PROPS is one or more
// property ids joined by '+'. Nothing is applied to /repo itself.
//
//	vcheck selftest [--only substr] [--tier quick|thorough] [-j N]
func cmdSelftest(args []string) int {
	only, tier, par := "", "quick", 3
	matrix := false
	for i := 0; i < len(args); i++ {
		switch args[i] {
		case "--matrix":
			matrix = true // run every property's check against every change
		case "--only":
			i++
			only = args[i]
		case "--tier":
			i++
			tier = args[i]
		case "-j":
			i++
			fmt.Sscan(args[i], &par)
		}
	}
	files, _ := filepath.Glob(filepath.Join(home(), "mutants", "*.diff"))
	seeded, _ := filepath.Glob(filepath.Join(home(), "seeded", "*", "patch.diff"))
	files = append(files, seeded...)
	sort.Strings(files)
	type res struct{ name, status string }
	var results []res
	var mu sync.Mutex
	sem := make(chan struct{}, par)
	var wg sync.WaitGroup
	for i, f := range files {
		name := strings.TrimSuffix(filepath.Base(f), ".diff")
		if filepath.Base(f) == "patch.diff" {
			name = filepath.Base(filepath.Dir(f))
		}
		if only != "" && !strings.Contains(name, only) {
			continue
		}
		parts := strings.SplitN(name, "__", 2)
		props := strings.Split(parts[0], "+")
		if matrix {
			props = nil
			for id := range configs {
				props = append(props, id)
			}
			sort.Strings(props)
		}
		wg.Add(1)
		go func(i int, f, name string, props []string) {
			defer wg.Done()
			sem <- struct{}{}
			defer func() { <-sem }()
			st := runMutant(i, f, props, tier)
			mu.Lock()
			results = append(results, res{name, st})
			mu.Unlock()
			fmt.Printf("%-70s %s\n", name, st)
		}(i, f, name, props)
	}
	wg.Wait()
	sort.Slice(results, func(i, j int) bool { return results[i].name < results[j].name })
	bad := 0
	var sb strings.Builder
	sb.WriteString("# selftest results (" + tier + ")\n\n| mutant | result |\n|---|---|\n")
	for _, r := range results {
		sb.WriteString("| " + r.name + " | " + r.status + " |\n")
		if !strings.HasPrefix(r.status, "DETECTED") && !strings.HasPrefix(r.status, "suite-kills") {
			bad++
		}
	}
	if only == "" && !matrix {
		os.WriteFile(filepath.Join(home(), "mutants", "RESULTS-"+tier+".md"), []byte(sb.String()), 0o644)
	}
	if matrix {
		os.WriteFile(filepath.Join(home(), "mutants", "MATRIX-"+tier+".md"), []byte(sb.String()), 0o644)
	}
	if bad > 0 {
		fmt.Printf("selftest: %d mutant(s) not detected\n", bad)
		return 1
	}
	fmt.Println("selftest: all mutants detected")
	return 0
}

func runMutant(i int, diff string, props []string, tier string) string {
	dir := fmt.Sprintf("/tmp/vmut-%d-%d", os.Getpid(), i)
	defer func() {
		exec.Command("git", "-C", "/repo", "worktree", "remove", "--force", dir).Run()
		os.RemoveAll(dir)
		for _, p := range props {
			os.RemoveAll(filepath.Join(home(), ".build", p+"-"+strings.NewReplacer("/", "_").Replace(dir)))
		}
	}()
	if out, err := exec.Command("git", "-C", "/repo", "worktree", "add", "--detach", "-f", dir, "HEAD").CombinedOutput(); err != nil {
		return "ERROR worktree: " + string(out)
	}
	if out, err := exec.Command("git", "-C", dir, "apply", "--whitespace=nowarn", diff).CombinedOutput(); err != nil {
		return "ERROR patch does not apply: " + strings.TrimSpace(string(out))
	}
	t := exec.Command("go", "test", "-vet=off", "-count=1", "./...")
	t.Dir = dir
	t.Env = goEnv()
	if out, err := t.CombinedOutput(); err != nil {
		return "suite-kills (the repository's own tests fail on this change): " + lastLine(string(out))
	}
	var statuses []string
	detected := false
	for _, p := range props {
		self, _ := os.Executable()
		cmd := exec.Command(self, p, "--tier", tier, "--no-evidence")
		cmd.Env = append(os.Environ(), "VERIF_REPO="+dir, "VERIF_BUILD_TAG="+fmt.Sprint(i))
		var ob bytes.Buffer
		cmd.Stdout, cmd.Stderr = &ob, &ob
		err := cmd.Run()
		code := 0
		if ee, ok := err.(*exec.ExitError); ok {
			code = ee.ExitCode()
		}
		hasV := strings.Contains(ob.String(), "VIOLATION property="+p)
		switch {
		case code == 1 && hasV:
			detected = true
			statuses = append(statuses, p+":VIOLATION("+firstSig(ob.String())+")")
		case code == 0:
			statuses = append(statuses, p+":silent")
		default:
			statuses = append(statuses, fmt.Sprintf("%s:exit%d(%s)", p, code, lastLine(ob.String())))
		}
	}
	if detected {
		return "DETECTED " + strings.Join(statuses, " ")
	}
	return "MISSED " + strings.Join(statuses, " ")
}

func lastLine(s string) string {
	l := strings.Split(strings.TrimSpace(s), "\n")
	x := l[len(l)-1]
	if len(x) > 160 {
		x = x[:160]
	}
	return x
}

func firstSig(s string) string {
	for _, l := range strings.Split(s, "\n") {
		l = strings.TrimSpace(l)
		if strings.HasPrefix(l, "sig=") {
			f := strings.Fields(l)
			return strings.TrimPrefix(f[0], "sig=")
		}
	}
	return "?"
}
