package main

import "fmt"

func cmdSelftest(args []string) int {
	fmt.Println("selftest: see mutants.go")
	return 0
}
