package main

import "time"

var configs = map[string]checkCfg{
	"C03": {QuickBudget: 150 * time.Second, ThoroughBudge: 20 * time.Minute,
		Rule: "states = distinct inputs per tree (every witness prefix <= 600, all byte strings <= 2, concatenation and overlay of every ordered pair of witnesses), on the built-in tree and on 7 trees enlarged by Extend; transitions = (tree, input, limit) executions, each compared consultation-by-consultation with the reference first-match walk; non-trivial = executions whose model path has depth >= 3 or ends in an extension",
		Assumptions: []string{"detectors are wrapped by a recorder through the in-package hook; (name, extension) identifies a node"}},
	"C13": {QuickBudget: 150 * time.Second, ThoroughBudge: 20 * time.Minute,
		Rule: "states = distinct inputs (all cell assignments of small tables and row-uniform larger ones x delimiter x EOL x final terminator; all record sequences of the NDJSON menu; every string over the csv converse alphabet and over the ndjson converse alphabet up to the length bound; damaged tables/streams with the damaged line at every position); transitions = (input, limit) executions (limit 0, len+1 and every limit from just after the second line terminator to len for positives; 0, len, len+1 for the converse); non-trivial = positive executions in truncated mode plus converse inputs",
		Assumptions: []string{"not demanded: tables/streams whose first two lines include a blank or comment line, embedded newlines in quoted cells, bare quotes inside unquoted cells; blank lines are ignorable in tables as encoding/csv defines"}},
	"C12": {QuickBudget: 150 * time.Second, ThoroughBudge: 20 * time.Minute,
		Rule: "states = distinct documents (label x prologue x declaration form x name spelling x epilogue for HTML; label x leading whitespace x quote x standalone x version quote x root for XML); transitions = (document, limit) executions (0, 3072, end of the declaring tag, len; every cut from the end of the declaring tag to len+1 for the real labels); every document carries a declaration, so non-trivial = documents",
		Assumptions: []string{"not demanded: whitespace inside the quotes of a label, unquoted value glued to />, labels merely starting with utf-16, XML preceded by a BOM, XML with spaces around =, two declarations, & in labels, upper-case <?XML"}},
	"C11": {QuickBudget: 150 * time.Second, ThoroughBudge: 20 * time.Minute,
		Rule: "states = distinct byte strings (every string over the 19-symbol byte-class alphabet up to the length bound, shorter ones behind each of the 5 BOMs, 14 real sentences and their Latin-1/cp1252 re-encodings at every cut); transitions = Detect executions; non-trivial = headers containing at least one byte >= 0x80 (distinct strings by construction)",
		Assumptions: []string{"empty input is not required to carry a charset", "no charset is demanded for ASCII containing ESC/DEL/BEL, nor for invalid UTF-8 that is not Latin-classed"}},
	"C10": {QuickBudget: 150 * time.Second, ThoroughBudge: 20 * time.Minute,
		Rule: "states = distinct documents (every ordered selection of <=k members from the 48-member menu with at most one deciding member per kind, x 3 layouts, plus array-wrapped variants); transitions = (document, limit) executions: limit 0, len+1 and every cut from 12 bytes before the end of the first deciding member to the end; non-trivial = documents containing at least one deciding member"},
	"C08": {QuickBudget: 150 * time.Second, ThoroughBudge: 20 * time.Minute,
		Rule: "states = generator states of the RFC 8259 pushdown generator plus documents produced (structure axis <= T tokens / depth 4; lexical menu x structures x 7 layouts; all whitespace choices per gap of small documents; nestings to depth 4096); transitions = generator edges plus (document, limit) executions: every cut after the opening bracket and three whole-file limits; non-trivial = (document, cut) pairs executed in truncated mode (distinct by construction)"},
	"C09": {QuickBudget: 150 * time.Second, ThoroughBudge: 20 * time.Minute,
		Rule: "states = distinct byte strings enumerated (every string over the 15-symbol JSON alphabet starting with [ or { up to the length bound, every string <=4 with any first symbol and 3 leading-whitespace variants, every single-token mutant of every generated valid document) plus generator states; transitions = (string, mode) executions (limit 0, limit len, limit len+1) plus generator edges; non-trivial = strings the reference does not classify Complete (malformed or cut)"},
	"C07": {QuickBudget: 150 * time.Second, ThoroughBudge: 15 * time.Minute,
		Rule: "states = distinct byte strings enumerated (all strings <=2 bytes; all strings over the 21-symbol class alphabet up to the length bound; every position x 256 values of every text witness and its 5 BOM variants; every witness prefix); transitions = (string, limit) pairs executed; non-trivial = pairs whose examined header contains a binary data byte or starts with a BOM (pairs are distinct by construction)"},
}
