package main

import "time"

var configs = map[string]checkCfg{
	"C07": {QuickBudget: 150 * time.Second, ThoroughBudge: 15 * time.Minute,
		Rule: "states = distinct byte strings enumerated (all strings <=2 bytes; all strings over the 21-symbol class alphabet up to the length bound; every position x 256 values of every text witness and its 5 BOM variants; every witness prefix); transitions = (string, limit) pairs executed; non-trivial = pairs whose examined header contains a binary data byte or starts with a BOM (pairs are distinct by construction)"},
}
