// Package vsync replaces "sync" in the packages under test when a check needs
// to own scheduling (import rewritten by the vcheck overlay generator). Every
// operation first tells the scheduler (if one is installed), then behaves like
// the real type.
package vsync

import (
	"reflect"
	"sync"

	"github.com/gabriel-vasile/mimetype/internal/verifx/sched"
)

type (
	WaitGroup = sync.WaitGroup
	Once      = sync.Once
	Map       = sync.Map
	Cond      = sync.Cond
	Locker    = sync.Locker
)

func NewCond(l Locker) *Cond { return sync.NewCond(l) }

// Mutex is a mutual exclusion lock with scheduling points.
type Mutex struct{ real sync.Mutex }

func (m *Mutex) Lock() {
	if h := sched.Active; h != nil {
		h.Acquire(m, "w")
		return
	}
	m.real.Lock()
}
func (m *Mutex) Unlock() {
	if h := sched.Active; h != nil {
		h.Release(m, "w")
		return
	}
	m.real.Unlock()
}

// RWMutex is a reader/writer lock with scheduling points.
type RWMutex struct{ real sync.RWMutex }

func (m *RWMutex) Lock() {
	if h := sched.Active; h != nil {
		h.Acquire(m, "w")
		return
	}
	m.real.Lock()
}
func (m *RWMutex) Unlock() {
	if h := sched.Active; h != nil {
		h.Release(m, "w")
		return
	}
	m.real.Unlock()
}
func (m *RWMutex) RLock() {
	if h := sched.Active; h != nil {
		h.Acquire(m, "r")
		return
	}
	m.real.RLock()
}
func (m *RWMutex) RUnlock() {
	if h := sched.Active; h != nil {
		h.Release(m, "r")
		return
	}
	m.real.RUnlock()
}

// Pool mirrors sync.Pool. Under a scheduler the idle list is explicit so that
// the explorer decides which object Get returns.
type Pool struct {
	New  func() any
	real sync.Pool
	idle []any
	out  map[any]bool // objects taken from the idle list and not yet put back

	registered bool
}

// Pool discipline (scheduler mode only): an object must never sit in a pool's
// idle list twice, and must never be handed out while it is still checked out.
// Either means two callers can hold the same scratch object at the same time.
var poolFault string

// PoolFault returns and clears the first discipline fault seen since the last call.
func PoolFault() string {
	f := poolFault
	poolFault = ""
	return f
}

func isPtr(x any) bool { return x != nil && reflect.ValueOf(x).Kind() == reflect.Ptr }

func fault(msg string) {
	if poolFault == "" {
		poolFault = msg
	}
}

// pools seen in scheduler mode (registration order = first use order)
var pools []*Pool

func (p *Pool) register() {
	if !p.registered {
		p.registered = true
		pools = append(pools, p)
	}
}

// AllPools returns the pools used so far under a scheduler.
func AllPools() []*Pool { return pools }

// ResetPools empties every explicit idle list (pristine pool state).
func ResetPools() {
	for _, p := range pools {
		p.idle = nil
		p.out = nil
	}
	poolFault = ""
}

func (p *Pool) Get() any {
	if h := sched.Active; h != nil {
		p.register()
		h.Point("pool.get", p)
		i := h.PoolGet(p, len(p.idle))
		if i < 0 || i >= len(p.idle) {
			if p.New != nil {
				return p.New()
			}
			return nil
		}
		x := p.idle[i]
		p.idle = append(p.idle[:i], p.idle[i+1:]...)
		if isPtr(x) {
			if p.out[x] {
				fault("a pool handed out an object that an earlier Get still holds")
			}
			if p.out == nil {
				p.out = map[any]bool{}
			}
			p.out[x] = true
		}
		return x
	}
	if x := p.real.Get(); x != nil {
		return x
	}
	if p.New != nil {
		return p.New()
	}
	return nil
}

func (p *Pool) Put(x any) {
	if h := sched.Active; h != nil {
		p.register()
		h.Point("pool.put", p)
		if isPtr(x) {
			for _, y := range p.idle {
				if isPtr(y) && y == x {
					fault("an object was put into a pool in which it is already idle (double Put): two later Gets, possibly on different goroutines, receive the same object")
				}
			}
			delete(p.out, x)
		}
		p.idle = append(p.idle, x)
		return
	}
	p.real.Put(x)
}

// Idle exposes the explicit idle list (scheduler mode) for state keys.
func (p *Pool) Idle() []any { return p.idle }
