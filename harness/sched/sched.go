// Package sched is the controlled cooperative scheduler used to enumerate
// goroutine interleavings (C06) and sync.Pool answers (C04). The shim packages
// vsync / vatomic call into it before every synchronisation operation. With no
// scheduler installed every call is a pass-through to the real operation.
package sched

// Hooks is installed by a check that wants to own scheduling decisions.
type Hooks interface {
	// Point is called before a synchronisation operation. kind names the
	// operation, obj identifies the object operated on.
	Point(kind string, obj any)
	// Acquire/Release model lock ownership; they block (cooperatively) until
	// the operation is enabled. mode: "w" or "r".
	Acquire(obj any, mode string)
	Release(obj any, mode string)
	// PoolGet lets the explorer choose which pooled object is handed out:
	// n is the number of idle objects (0 = must allocate); return value is an
	// index in [0,n) or -1 for "allocate a fresh one".
	PoolGet(obj any, n int) int
}

// Active is nil unless a check installed a scheduler.
var Active Hooks
