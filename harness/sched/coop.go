package sched

import (
	"fmt"
	"runtime/debug"
)

// Chooser is the part of the explorer the scheduler needs.
type Chooser interface {
	Choose(n int) int
	Deviate(n int) int
}

type lockState struct {
	writer  int // thread id holding the write lock, -1 none
	readers map[int]int
	// pending: writers that have called Lock and wait for the readers to leave.
	// As sync.RWMutex documents, while a writer is pending further RLock calls
	// block (a recursive read lock then deadlocks with the pending writer).
	pending map[int]bool
}

type thr struct {
	id      int
	wake    chan struct{}
	done    bool
	started bool
	// pending lock request while parked at an Acquire point
	wantObj  any
	wantMode string
	// announced: this thread has called Lock (it is in pending) and waits
	announced bool
	// pending condition while parked in WaitUntil (a blocking call into code
	// the harness models: a pipe without data, a channel without a sender)
	waitCond func() bool
	body     func()
	panicMsg string
}

// Event is one scheduling step, for replay files and state keys.
type Event struct {
	Thread int
	Kind   string
}

// Coop is a cooperative scheduler: exactly one managed goroutine runs at a
// time; at every synchronisation point the explorer decides who continues.
// Switching away from a thread that could continue is a preemption (Deviate);
// switching because the running thread blocked or finished is free (Choose).
type Coop struct {
	X        Chooser
	threads  []*thr
	cur      int
	locks    map[any]*lockState
	finished chan struct{}
	Deadlock bool
	Steps    int
	Trace    []Event
	// hooks for the harness
	OnStep    func(thread int, kind string, obj any)
	LockOrder []int // thread ids in order of write-lock acquisition
	MaxSteps  int
	Overrun   bool
}

func NewCoop(x Chooser) *Coop {
	return &Coop{X: x, locks: map[any]*lockState{}, finished: make(chan struct{}, 1), cur: -1, MaxSteps: 100000}
}

// Go registers a thread body (not started yet).
func (s *Coop) Go(body func()) int {
	t := &thr{id: len(s.threads), wake: make(chan struct{}, 1), body: body}
	s.threads = append(s.threads, t)
	return t.id
}

// Run executes all threads to completion (or deadlock) under the explorer.
func (s *Coop) Run() {
	Active = s
	defer func() { Active = nil }()
	for _, t := range s.threads {
		t := t
		go func() {
			<-t.wake
			func() {
				defer func() {
					if r := recover(); r != nil {
						t.panicMsg = fmt.Sprintf("%v\n%s", r, debug.Stack())
					}
				}()
				t.body()
			}()
			t.done = true
			s.switchFrom(t, true)
		}()
	}
	// pick the first thread
	first := s.pick(-1)
	if first < 0 {
		return
	}
	s.cur = first
	s.threads[first].started = true
	s.threads[first].wake <- struct{}{}
	<-s.finished
	s.cur = -1 // hooks reached after the run (e.g. by wrapped detectors) are pass-through
}

// Panics returns the panic messages of threads that panicked.
func (s *Coop) Panics() []string {
	var out []string
	for _, t := range s.threads {
		if t.panicMsg != "" {
			out = append(out, fmt.Sprintf("thread %d: %s", t.id, t.panicMsg))
		}
	}
	return out
}

func (s *Coop) lock(obj any) *lockState {
	l := s.locks[obj]
	if l == nil {
		l = &lockState{writer: -1, readers: map[int]int{}, pending: map[int]bool{}}
		s.locks[obj] = l
	}
	return l
}

func (s *Coop) enabled(t *thr) bool {
	if t.done {
		return false
	}
	if t.waitCond != nil {
		return t.waitCond()
	}
	if t.wantObj == nil {
		return true
	}
	l := s.lock(t.wantObj)
	if t.wantMode == "w" {
		if !t.announced {
			return true // the call to Lock itself can always be made
		}
		return l.writer == -1 && len(l.readers) == 0
	}
	return l.writer == -1 && len(l.pending) == 0
}

// pick chooses the next thread to run. from is the running thread (-1: none).
func (s *Coop) pick(from int) int {
	var en []int
	runningEnabled := from >= 0 && s.enabled(s.threads[from])
	if runningEnabled {
		en = append(en, from)
	}
	for _, t := range s.threads {
		if t.id != from && s.enabled(t) {
			en = append(en, t.id)
		}
	}
	if len(en) == 0 {
		return -1
	}
	if len(en) == 1 {
		return en[0]
	}
	var c int
	if runningEnabled {
		c = s.X.Deviate(len(en))
	} else {
		c = s.X.Choose(len(en))
	}
	return en[c]
}

// switchFrom is called by the running thread t at a point (or when done).
func (s *Coop) switchFrom(t *thr, finishing bool) {
	s.Steps++
	if s.Steps > s.MaxSteps {
		s.Overrun = true
	}
	next := s.pick(t.id)
	if next < 0 {
		// nobody can run
		allDone := true
		for _, u := range s.threads {
			if !u.done {
				allDone = false
			}
		}
		if !allDone {
			s.Deadlock = true
		}
		s.finished <- struct{}{}
		if !finishing {
			select {} // park forever (deadlocked thread)
		}
		return
	}
	if next == t.id {
		return
	}
	s.cur = next
	nt := s.threads[next]
	nt.started = true
	nt.wake <- struct{}{}
	if finishing {
		return
	}
	<-t.wake
}

func (s *Coop) me() *thr {
	if s.cur < 0 {
		return nil
	}
	return s.threads[s.cur]
}

// Point implements Hooks.
func (s *Coop) Point(kind string, obj any) {
	t := s.me()
	if t == nil {
		return
	}
	s.Trace = append(s.Trace, Event{t.id, kind})
	if s.OnStep != nil {
		s.OnStep(t.id, kind, obj)
	}
	s.switchFrom(t, false)
}

// WaitUntil parks the running thread until cond holds (evaluated whenever the
// scheduler looks for enabled threads). It models a blocking call whose
// completion depends on other threads, e.g. Read on a pipe that another
// goroutine fills. If cond never becomes true and nobody else can run, the run
// ends as a deadlock.
func (s *Coop) WaitUntil(kind string, cond func() bool) {
	t := s.me()
	if t == nil {
		return
	}
	t.waitCond = cond
	s.Trace = append(s.Trace, Event{t.id, "wait." + kind})
	s.switchFrom(t, false)
	t.waitCond = nil
}

// Done reports whether thread id has finished its body.
func (s *Coop) Done(id int) bool { return s.threads[id].done }

// Acquire implements Hooks: a scheduling point at which the thread is only
// enabled once the lock can be taken.
func (s *Coop) Acquire(obj any, mode string) {
	t := s.me()
	if t == nil {
		return
	}
	t.wantObj, t.wantMode, t.announced = obj, mode, false
	s.Trace = append(s.Trace, Event{t.id, "lock." + mode})
	s.switchFrom(t, false)
	// we run again: a reader was only chosen with the lock available; a writer
	// now makes its call to Lock and, if the lock is busy, is pending from here on
	l := s.lock(obj)
	if mode == "w" {
		if l.writer != -1 || len(l.readers) != 0 {
			l.pending[t.id] = true
			t.announced = true
			s.Trace = append(s.Trace, Event{t.id, "lock.w.pending"})
			s.switchFrom(t, false)
			delete(l.pending, t.id)
			t.announced = false
		}
		if l.writer != -1 || len(l.readers) != 0 {
			panic("sched: write lock granted while held")
		}
		l.writer = t.id
		s.LockOrder = append(s.LockOrder, t.id)
	} else {
		if l.writer != -1 {
			panic("sched: read lock granted while write-held")
		}
		l.readers[t.id]++
	}
	t.wantObj = nil
	if s.OnStep != nil {
		s.OnStep(t.id, "acquired."+mode, obj)
	}
}

// Release implements Hooks.
func (s *Coop) Release(obj any, mode string) {
	t := s.me()
	if t == nil {
		return
	}
	l := s.lock(obj)
	if mode == "w" {
		if l.writer != t.id {
			panic("sched: unlock of a write lock not held by this thread")
		}
		l.writer = -1
	} else {
		if l.readers[t.id] == 0 {
			panic("sched: runlock of a read lock not held by this thread")
		}
		l.readers[t.id]--
		if l.readers[t.id] == 0 {
			delete(l.readers, t.id)
		}
	}
	if s.OnStep != nil {
		s.OnStep(t.id, "released."+mode, obj)
	}
	s.Trace = append(s.Trace, Event{t.id, "unlock." + mode})
	s.switchFrom(t, false)
}

// PoolGet implements Hooks: most recently released object (what sync.Pool's
// per-P private slot does); cross-thread hand-over therefore happens whenever
// the schedule interleaves a Put and a Get.
func (s *Coop) PoolGet(obj any, n int) int {
	if n == 0 {
		return -1
	}
	return n - 1
}

// Cur returns the running thread id.
func (s *Coop) Cur() int { return s.cur }
