package checks

import (
	"bytes"
	"encoding/binary"
	"fmt"
	"os"
	"path/filepath"
	"strings"
	"time"

	"github.com/gabriel-vasile/mimetype"
	"github.com/gabriel-vasile/mimetype/internal/verifx/core"
	"github.com/gabriel-vasile/mimetype/internal/verifx/ref"
)

// C01 — detection never crashes and always answers.
//
// Families (DESIGN.md §3 C01): all byte strings <= 2 (thorough 3); every prefix
// of every witness; length-field boundary sweeps (zip, CRX, OLE, Matroska and
// fixed-offset guards); single-byte mutation sweeps. Each header goes to Detect
// and *directly to every registered detector* with several limits.
//
// Oracle: no panic; non-nil answer from all entry points; termination
// (watchdog); never reads or writes outside the bytes given — each direct call
// runs on a tight arena (cap == len: any re-slice past the bytes panics) and on
// an arena with 64 spare bytes filled with pattern A then B: the verdicts must
// agree and header and spare bytes must be unchanged.
func init() { Registry["C01"] = &Check{Setup: c01Setup, Run: c01Run} }

var c01Nodes []mimetype.VerifNode
var c01Arena = make([]byte, 1<<20)
var c01Ctx *core.Ctx
var c01DetCalls uint64
var c01Accepts int

func firstLine(s string) string {
	if i := strings.IndexByte(s, '\n'); i >= 0 {
		s = s[:i]
	}
	if len(s) > 100 {
		s = s[:100]
	}
	return s
}

// callDet runs one detector, turning a panic into a description.
func callDet(d func([]byte, uint32) bool, raw []byte, limit uint32) (r bool, pan string) {
	defer func() {
		if x := recover(); x != nil {
			pan = fmt.Sprint(x)
		}
	}()
	c01DetCalls++
	return d(raw, limit), ""
}

// c01DetEval: the header is handed to every detector with limit cs.Limit.
// When Ints[0] is present, cs.In = header || continuation and Ints[0] is the
// header length: the spare capacity behind the header is then also filled with
// the *true continuation* of the witness, so that a detector that re-slices
// beyond len(raw) sees a complete signature there and changes its verdict.
func c01DetEval(cs *core.Case) (bool, string, string) {
	full := cs.In
	if len(cs.Ints) > 0 && cs.Ints[0] <= len(cs.In) {
		saved := cs.In
		cs.In = cs.In[:cs.Ints[0]]
		defer func() { cs.In = saved }()
	}
	cont := full[len(cs.In):]
	n := len(cs.In)
	if n+64 > len(c01Arena)/2 {
		c01Arena = make([]byte, 2*(n+64)+1024)
	}
	// tight arena: cap == len
	T := c01Arena[0:n:n]
	copy(T, cs.In)
	// spare arena
	base := n + 16
	S := c01Arena[base : base+n : base+n+64]
	copy(S, cs.In)
	spare := c01Arena[base+n : base+n+64]
	c01Accepts = 0
	for i, nd := range c01Nodes {
		id := nd.Name + "|" + nd.Ext
		if c01Ctx != nil {
			c01Ctx.Watch(cs, "detector "+id)
		}
		rT, p := callDet(nd.Det, T, cs.Limit)
		if p != "" {
			return false, "C01/panic/" + id + "/" + firstLine(p), fmt.Sprintf("detector %s panics on header %s (len %d, cap %d) limit %d: %s", id, core.Quote(cs.In), n, n, cs.Limit, p)
		}
		for k := range spare {
			spare[k] = 0xAA
		}
		rA, p := callDet(nd.Det, S, cs.Limit)
		if p != "" {
			return false, "C01/panic/" + id + "/" + firstLine(p), fmt.Sprintf("detector %s panics on header %s limit %d: %s", id, core.Quote(cs.In), cs.Limit, p)
		}
		for k := range spare {
			if spare[k] != 0xAA {
				return false, "C01/writes-outside/" + id, fmt.Sprintf("detector %s wrote beyond the header %s", id, core.Quote(cs.In))
			}
			spare[k] = byte(0x50 + k%7) // pattern B: looks like "PQRSTUV"
		}
		rB, p := callDet(nd.Det, S, cs.Limit)
		if p != "" {
			return false, "C01/panic/" + id + "/" + firstLine(p), fmt.Sprintf("detector %s panics on header %s limit %d: %s", id, core.Quote(cs.In), cs.Limit, p)
		}
		if rT {
			c01Accepts++
		}
		rW := rT
		for k := range spare {
			spare[k] = 0
		}
		copy(spare, cont)
		rW, p = callDet(nd.Det, S, cs.Limit)
		if p != "" {
			return false, "C01/panic/" + id + "/" + firstLine(p), fmt.Sprintf("detector %s panics on header %s limit %d: %s", id, core.Quote(cs.In), cs.Limit, p)
		}
		if rT != rW {
			return false, "C01/reads-outside/" + id, fmt.Sprintf("detector %s gives %v on the tight header and %v when the spare capacity behind the header %s (limit %d) holds the continuation of the file / zeros: it read outside the bytes it was given", id, rT, rW, core.Quote(cs.In), cs.Limit)
		}
		if rT != rA || rA != rB {
			return false, "C01/reads-outside/" + id, fmt.Sprintf("detector %s gives %v on the tight header, %v / %v with different bytes *after* the header %s (limit %d): it read outside the bytes it was given", id, rT, rA, rB, core.Quote(cs.In), cs.Limit)
		}
		if !bytes.Equal(T, cs.In) || !bytes.Equal(S, cs.In) {
			return false, "C01/modifies-header/" + id, fmt.Sprintf("detector %s modified the header %s", id, core.Quote(cs.In))
		}
		_ = i
	}
	if c01Ctx != nil {
		c01Ctx.Unwatch()
	}
	return true, "", ""
}

var c01TmpDir string

// c01APIEval: Ints[0] = entry point (0 Detect, 1 DetectReader, 2 DetectFile).
func c01APIEval(cs *core.Case) (ok bool, sig, msg string) {
	entry := cs.Ints[0]
	name := []string{"Detect", "DetectReader", "DetectFile"}[entry]
	defer func() {
		if x := recover(); x != nil {
			ok, sig, msg = false, "C01/panic/"+name+"/"+firstLine(fmt.Sprint(x)), fmt.Sprintf("%s panics on input %s limit %d: %v", name, core.Quote(cs.In), cs.Limit, x)
		}
		if c01Ctx != nil {
			c01Ctx.Unwatch()
		}
	}()
	if c01Ctx != nil {
		c01Ctx.Watch(cs, name)
	}
	var m *mimetype.MIME
	var err error
	switch entry {
	case 0:
		// tight copy so that Detect's own slicing cannot hide behind capacity
		in := append(make([]byte, 0, len(cs.In)), cs.In...)
		m = detectRaw(in, cs.Limit)
		if !bytes.Equal(in, cs.In) {
			return false, "C01/modifies-input/Detect", "Detect modified its input"
		}
	case 1:
		setLimit(cs.Limit)
		m, err = mimetype.DetectReader(bytes.NewReader(cs.In))
	case 2:
		if c01TmpDir == "" {
			c01TmpDir, _ = os.MkdirTemp("", "verif-c01-")
		}
		p := filepath.Join(c01TmpDir, "f")
		if e := os.WriteFile(p, cs.In, 0o600); e != nil {
			return true, "skip", ""
		}
		setLimit(cs.Limit)
		m, err = mimetype.DetectFile(p)
	}
	if m == nil {
		return false, "C01/nil-result/" + name, fmt.Sprintf("%s returned nil for input %s limit %d", name, core.Quote(cs.In), cs.Limit)
	}
	if err != nil {
		return false, "C01/unexpected-error/" + name, fmt.Sprintf("%s returned error %v for in-memory input %s limit %d", name, err, core.Quote(cs.In), cs.Limit)
	}
	if m.String() == "" {
		return false, "C01/empty-answer/" + name, "empty MIME string"
	}
	return true, "", ""
}

func c01Setup(c *core.Ctx) {
	c01Nodes = mimetype.VerifNodes()
	c01Ctx = c
	c.Register("c01det", c01DetEval)
	c.Register("c01api", c01APIEval)
	// deep nestings in a child process (a Go stack overflow is fatal, it cannot be
	// recovered in-process): Ints = shape depth closed lead limitmode entry
	c.Register("c01bomb", func(cs *core.Case) (bool, string, string) {
		ok, sig, msg := c16RunChild(c, cs)
		if !ok && (strings.Contains(sig, "stack-overflow") || strings.Contains(sig, "child-died")) {
			return false, strings.Replace(sig, "C16/", "C01/does-not-return/", 1), msg
		}
		return true, "", ""
	})
	if c.Out != "" {
		c.StartWatchdog(120*time.Second, c.Out)
	}
}

func c01Limits(n int) []uint32 {
	ls := []uint32{0, uint32(n), uint32(n + 1), 1<<32 - 1}
	if n > 0 {
		ls = append(ls, uint32(n-1))
	}
	return ls
}

func c01Run(c *core.Ctx) {
	defer func() {
		if c01TmpDir != "" {
			os.RemoveAll(c01TmpDir)
		}
	}()
	det := &core.Case{Kind: "c01det"}
	api := &core.Case{Kind: "c01api", Ints: []int{0}}
	c.Info("detectors", fmt.Sprint(len(c01Nodes)))

	var contOf []byte // when set: the bytes that follow the header in the witness
	hdr := func(h []byte, class string) { // one header to every detector, 5 limits
		c.R.States++
		det.In = h
		det.Ints = det.Ints[:0]
		if contOf != nil {
			k := len(contOf)
			if k > 64 {
				k = 64
			}
			det.In = append(append(make([]byte, 0, len(h)+k), h...), contOf[:k]...)
			det.Ints = append(det.Ints, len(h))
		}
		acc := 0
		for _, l := range c01Limits(len(h)) {
			det.Limit = l
			c.R.Transitions++
			c.R.Evals++
			c.Check(det)
			if c01Accepts > acc {
				acc = c01Accepts
			}
		}
		if acc >= 2 {
			c.R.Nontrivial++ // some signature check other than the root accepted this header
		}
		c.SampleCase(class, det)
	}
	apis := func(in []byte, limits []uint32, entries []int, class string) {
		api.In = in
		for _, l := range limits {
			for _, e := range entries {
				api.Limit, api.Ints[0] = l, e
				c.R.Transitions++
				c.R.Evals++
				c.Check(api)
			}
		}
		c.SampleCase(class, api)
	}
	fullMenu := func(n int) []uint32 {
		m := []uint32{0, 1, 2, uint32(n), uint32(n + 1), 3072}
		if n > 0 {
			m = append(m, uint32(n-1))
		}
		return m
	}
	huge := []uint32{1<<31 - 1, 1 << 31, 1<<32 - 1}

	// ---- family 1: all byte strings <= 2 (thorough: 3)
	if c.Mine(0) {
		hdr(nil, "f1:short")
		apis(nil, fullMenu(0), []int{0, 1, 2}, "f1:short")
		apis(nil, huge, []int{0}, "f1:short")
	}
	for a := 0; a < 256; a++ {
		if !c.Next() || c.Expired() {
			continue
		}
		s1 := []byte{byte(a)}
		hdr(s1, "f1:short")
		apis(s1, fullMenu(1), []int{0, 1, 2}, "f1:short")
		apis(s1, huge, []int{0}, "f1:short")
		if a == 'P' {
			apis(s1, []uint32{1 << 31, 1<<32 - 1}, []int{1}, "f1:huge-limit-reader") // DetectReader allocates `limit` bytes: two calls only
		}
		for b := 0; b < 256; b++ {
			s2 := []byte{byte(a), byte(b)}
			hdr(s2, "f1:short")
			apis(s2, fullMenu(2), []int{0, 1}, "f1:short")
			if (a*256+b)%16 == 0 {
				apis(s2, []uint32{0, 1, 2, 3}, []int{2}, "f1:short-file")
			}
			if c.Thorough() {
				for d := 0; d < 256; d++ {
					s3 := []byte{byte(a), byte(b), byte(d)}
					c.R.States++
					apis(s3, []uint32{0, 2, 3}, []int{0}, "f1:len3")
				}
			}
		}
	}

	// ---- family 2: every prefix of every witness
	W := corpus(c)
	guards := []int{3, 4, 8, 12, 16, 24, 26, 30, 31, 36, 44, 49, 60, 68, 112, 128, 132, 257, 262, 512, 513, 520, 592, 608, 1152, 2048, 4096, 4176, 4192, 4688}
	for _, w := range W {
		if !c.Next() || c.Expired() {
			continue
		}
		n := len(w.Data)
		cuts := map[int]bool{}
		for k := 0; k <= n && k <= 600; k++ {
			cuts[k] = true
		}
		if n > 600 {
			for k := 600; k <= n && k <= 4800; k += 64 {
				cuts[k] = true
			}
			for _, g := range guards {
				for d := -2; d <= 2; d++ {
					if g+d >= 0 && g+d <= n {
						cuts[g+d] = true
					}
				}
			}
			for k := 0; k <= 64 && n-k >= 0; k++ {
				cuts[n-k] = true
			}
		}
		for k := range cuts {
			h := w.Data[:k]
			if k <= 4800 {
				contOf = w.Data[k:]
				if len(contOf) == 0 {
					contOf = nil
				}
				hdr(h, "f2:witness-prefix")
				contOf = nil
			}
			apis(h, []uint32{0, uint32(k)}, []int{0}, "f2:witness-prefix")
			apis(w.Data, []uint32{uint32(k)}, []int{0, 1}, "f2:witness-prefix")
		}
		if n <= 1<<16 {
			apis(w.Data, fullMenu(n), []int{2}, "f2:witness-file")
		}
		// f2b: the same witness behind each byte-order mark (and behind a mark
		// plus white space): detectors that skip a mark and later steps that do
		// not (or the other way round) meet here
		if n > 0 && n <= 2048 {
			for _, b := range ref.BOMs {
				for _, mid := range []string{"", "\r\n "} {
					v := append(append(append([]byte{}, b.Bytes...), mid...), w.Data...)
					c.R.States++
					apis(v, []uint32{0, uint32(len(b.Bytes) + len(mid) + (n+1)/2), 3072}, []int{0, 1}, "f2b:bom+witness")
				}
			}
		}
	}

	// ---- family 3: length-field boundary sweeps
	le32 := func(b []byte, off int, v uint32) { binary.LittleEndian.PutUint32(b[off:], v) }
	bset := func(n int) []uint32 {
		s := []uint32{0, 1, 15, 16, 17, 1<<31 - 1, 1 << 31, 1<<32 - 50, 1<<32 - 49, 1<<32 - 48, 1<<32 - 17, 1<<32 - 16, 1<<32 - 1}
		for d := -82; d <= 2; d++ {
			if n+d >= 0 {
				s = append(s, uint32(n+d))
			}
		}
		for d := uint32(0); d < 52; d++ {
			s = append(s, 1<<31-d, 1<<32-1-d)
		}
		return s
	}
	// zip: compressed size x name x following headers x total length
	for _, name := range []string{"[Content_Types].xml", "x", "_rels/.rels", "META-INF/MANIFEST.MF"} {
		for _, follow := range []int{0, 1, 3, 6} {
			for _, pad := range []int{0, 1, 19, 25, 26, 27, 60} {
				if !c.Next() || c.Expired() {
					continue
				}
				base := append([]byte("PK\x03\x04"), make([]byte, 26)...)
				binary.LittleEndian.PutUint16(base[26:], uint16(len(name)))
				base = append(base, name...)
				for f := 0; f < follow; f++ {
					base = append(base, make([]byte, pad)...)
					base = append(base, []byte("PK\x03\x04")...)
					base = append(base, make([]byte, 26)...)
					base = append(base, []byte("word/document.xml")...)
				}
				for _, total := range []int{len(base), len(base) - 1, len(base) - 17, 30, 31, 49, 50} {
					if total < 4 || total > len(base) {
						continue
					}
					h := append([]byte{}, base[:total]...)
					if total < 22 {
						hdr(h, "f3:zip")
						continue
					}
					for _, v := range bset(total) {
						le32(h, 18, v)
						hdr(h, "f3:zip")
						apis(h, []uint32{0, uint32(total)}, []int{0}, "f3:zip")
					}
				}
			}
		}
	}
	// CRX: (pubkeyLen, sigLen) in B x B
	for _, total := range []int{15, 16, 17, 20, 32, 48, 64} {
		if !c.Next() || c.Expired() {
			continue
		}
		h := make([]byte, total)
		copy(h, "Cr24\x02\x00\x00\x00")
		if total >= 24 {
			copy(h[total-8:], "PK\x03\x04")
		}
		if total < 16 {
			hdr(h, "f3:crx")
			continue
		}
		for _, p := range bset(total) {
			for _, s := range bset(total) {
				le32(h, 8, p)
				le32(h, 12, s)
				hdr(h, "f3:crx")
			}
		}
	}
	// OLE: first directory sector id x version x length
	oleLens := []int{8, 27, 28, 48, 51, 52, 511, 512, 513, 592, 593, 607, 608, 609, 610, 1104, 1120, 4095, 4096, 4097, 4176, 4192, 4193, 4200}
	for _, n := range oleLens {
		for _, ver := range []byte{3, 4} {
			if !c.Next() || c.Expired() {
				continue
			}
			h := make([]byte, n)
			copy(h, []byte{0xD0, 0xCF, 0x11, 0xE0, 0xA1, 0xB1, 0x1A, 0xE1})
			if n > 27 {
				h[26], h[27] = ver, 0
			}
			if n < 52 {
				hdr(h, "f3:ole")
				continue
			}
			ids := []uint32{0, 1, 2, 7, 8, 9, uint32(n / 512), uint32(n/512) + 1, uint32(n/512) - 1, uint32(n / 4096), uint32(n/4096) + 1,
				1<<31 - 1, 1 << 31, 1<<32 - 2, 1<<32 - 1, 1<<23 - 1, 1 << 23, 1<<52>>32, 0x00800000, 0x7FFFFFFE, 0xFFFFFFFD}
			for _, id := range ids {
				le32(h, 48, id)
				hdr(h, "f3:ole")
				apis(h, []uint32{0}, []int{0}, "f3:ole")
			}
		}
	}
	// Matroska: vint width byte x position of 42 82 x length
	for _, pos := range []int{4, 5, 8, 100, 4089, 4090, 4092, 4093, 4094, 4095, 4096} {
		for _, extra := range []int{0, 1, 2, 3, 8, 9, 10, 20} {
			if !c.Next() || c.Expired() {
				continue
			}
			h := make([]byte, pos+2+extra)
			copy(h, "\x1A\x45\xDF\xA3")
			for i := 4; i < len(h); i++ {
				h[i] = 'm'
			}
			h[pos], h[pos+1] = 0x42, 0x82
			if extra == 0 {
				hdr(h, "f3:matroska")
				continue
			}
			for v := 0; v < 256; v++ {
				h[pos+2] = byte(v)
				hdr(h, "f3:matroska")
			}
		}
	}
	// fixed-offset guards: all-zero, all-0xFF, all-'0' and signature-prefixed buffers of guard lengths
	fills := []byte{0x00, 0xFF, '0', ' ', 0x1E}
	sigs := [][]byte{nil, []byte("TZif"), []byte("\x00\x00\x27\x0A"), []byte("ustar"), []byte("RIFF"), []byte("\x00\x00\x00\x18ftyp"), []byte("01234"), []byte("\x03\x01\x01"), []byte("OggS\x00"), []byte("AT&TFORM"), []byte("\x30\x82"), []byte("Cr24"), []byte("\x1A\x45\xDF\xA3")}
	for _, g := range guards {
		for d := -2; d <= 2; d++ {
			if !c.Next() || c.Expired() {
				continue
			}
			n := g + d
			if n < 0 {
				continue
			}
			for _, f := range fills {
				for _, s := range sigs {
					h := bytesOf(f, n)
					copy(h, s)
					hdr(h, "f3:guard-lengths")
				}
			}
		}
	}

	// ---- family 5: every byte-string constant of the sources, alone, cut at
	// every length, and padded with each filler to every guard length
	for _, lit := range literals(c) {
		if !c.Next() || c.Expired() {
			continue
		}
		for k := 1; k <= len(lit); k++ {
			hdr(lit[:k], "f5:source-literal")
		}
		for _, g := range []int{16, 24, 36, 44, 68, 112, 132, 512, 520, 1153} {
			for _, f := range []byte{0x00, 0xFF, ' '} {
				h := bytesOf(f, g)
				copy(h, lit)
				hdr(h, "f5:source-literal-padded")
			}
		}
		apis(lit, []uint32{0, 1, uint32(len(lit))}, []int{0, 1}, "f5:source-literal")
		// markup signatures spelled with the non-ASCII letters whose case mapping
		// lands on an ASCII letter (dotless i, long s, Kelvin sign): a Unicode
		// case fold changes the length of the input
		if len(lit) >= 2 && len(lit) <= 16 && lit[0] == '<' {
			for _, rep := range []struct {
				a string
				u string
			}{{"I", "\u0131"}, {"i", "\u0131"}, {"S", "\u017f"}, {"s", "\u017f"}, {"K", "\u212a"}, {"k", "\u212a"}} {
				if !strings.Contains(string(lit), rep.a) {
					continue
				}
				for _, tail := range []string{">", " x>", ""} {
					v := []byte(strings.Replace(string(lit), rep.a, rep.u, 1) + tail)
					apis(v, []uint32{0, uint32(len(v))}, []int{0}, "f5:markup-literal-with-unicode-letter")
					v2 := []byte(strings.ToLower(strings.Replace(string(lit), rep.a, rep.u, -1)) + tail)
					apis(v2, []uint32{0}, []int{0}, "f5:markup-literal-with-unicode-letter")
				}
			}
		}
	}

	// ---- family 7: degenerate XML declarations / <meta> tags (charset helpers)
	{
		mx, mm := 4, 4
		if c.Thorough() {
			mx, mm = 5, 5
		}
		var n uint64
		declSyntaxDocs(mx, mm, c.Next, func(doc []byte) {
			if c.Expired() {
				return
			}
			n++
			c.R.States++
			apis(doc, []uint32{0, uint32(len(doc))}, []int{0}, "f7:degenerate-declaration")
		})
		c.Note("degenerate-declarations", n)
	}

	// ---- family 6: deep nestings, examined in full, in a child process
	bomb := &core.Case{Kind: "c01bomb", Ints: make([]int, 6)}
	for si := 0; si < 3; si++ {
		for _, d := range []int{100000, 3000000} {
			for entry := 0; entry <= 1; entry++ {
				if !c.Next() || c.Expired() {
					continue
				}
				bomb.Ints[0], bomb.Ints[1], bomb.Ints[2], bomb.Ints[3], bomb.Ints[4], bomb.Ints[5] = si, d, 0, 0, 0, entry
				c.R.States++
				c.R.Transitions++
				c.R.Evals++
				c.Check(bomb)
			}
		}
	}

	// ---- family 4: single-byte mutation sweep of witnesses <= 600
	for _, w := range W {
		n := len(w.Data)
		if n == 0 || n > 600 {
			continue
		}
		if !c.Thorough() && n > 96 {
			continue
		}
		for pos := 0; pos < n; pos++ {
			if !c.Next() || c.Expired() {
				continue
			}
			m := append([]byte{}, w.Data...)
			for v := 0; v < 256; v++ {
				if !c.Thorough() && v%5 != 0 && v != 0xFF && v != int(w.Data[pos])+1 && v != int(w.Data[pos])-1 {
					continue
				}
				m[pos] = byte(v)
				c.R.States++
				apis(m, []uint32{0, uint32(n)}, []int{0}, "f4:byte-mutation")
				if v%51 == 0 {
					hdr(m, "f4:byte-mutation")
				}
			}
		}
	}
	c.Note("direct-detector-calls", c01DetCalls)
}
