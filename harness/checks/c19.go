package checks

import (
	"sort"
	"archive/zip"
	"bytes"
	"fmt"
	"io"
	"strings"

	"github.com/gabriel-vasile/mimetype/internal/verifx/core"
)

// C19 — zip-based formats are identified from their leading entry names.
//
// Archives are written by archive/zip from an explicit entry-list generator
// (names x bodies x storage kinds); the entry list is read back with
// archive/zip (independent of what the generator thinks it wrote) and the
// verdict of Detect at limit 0 is compared with the statement.
func init() { Registry["C19"] = &Check{Setup: c19Setup, Run: c19Run} }

var c19ODF = map[string]string{}

func init() {
	for _, t := range []string{"application/vnd.oasis.opendocument.text", "application/vnd.oasis.opendocument.text-template", "application/vnd.oasis.opendocument.spreadsheet", "application/vnd.oasis.opendocument.spreadsheet-template", "application/vnd.oasis.opendocument.presentation", "application/vnd.oasis.opendocument.presentation-template", "application/vnd.oasis.opendocument.graphics", "application/vnd.oasis.opendocument.graphics-template", "application/vnd.oasis.opendocument.formula", "application/vnd.oasis.opendocument.chart", "application/epub+zip", "application/vnd.sun.xml.calc"} {
		c19ODF[t] = t
	}
}

const (
	mDocx = "application/vnd.openxmlformats-officedocument.wordprocessingml.document"
	mXlsx = "application/vnd.openxmlformats-officedocument.spreadsheetml.sheet"
	mPptx = "application/vnd.openxmlformats-officedocument.presentationml.presentation"
	mJar  = "application/jar"
	mApk  = "application/vnd.android.package-archive"
	mZip  = "application/zip"
)

var apkMarkers = []string{"AndroidManifest.xml", "META-INF/com/android/build/gradle/app-metadata.properties", "classes.dex", "resources.arsc", "res/drawable"}

func c19Eval(cs *core.Case) (bool, string, string) {
	zr, err := zip.NewReader(bytes.NewReader(cs.In), int64(len(cs.In)))
	if err != nil {
		return true, "skip-unreadable", ""
	}
	var names []string
	for _, f := range zr.File {
		names = append(names, f.Name)
	}
	m := detect(cs.In, 0)
	got := bare(m.String())
	has := func(prefix string, upto int) bool {
		for i, n := range names {
			if upto > 0 && i >= upto {
				break
			}
			if strings.HasPrefix(n, prefix) {
				return true
			}
		}
		return false
	}
	hasAPK := func(upto int) bool {
		for _, a := range apkMarkers {
			if has(a, upto) {
				return true
			}
		}
		return false
	}
	desc := fmt.Sprintf("archive with entries %q", names)
	if len(names) > 0 {
		f0 := zr.File[0]
		// ---- positive clauses
		if names[0] == "[Content_Types].xml" {
			want := map[string]bool{}
			if has("word/", 6) {
				want[mDocx] = true
			}
			if has("xl/", 6) {
				want[mXlsx] = true
			}
			if has("ppt/", 6) {
				want[mPptx] = true
			}
			if len(want) > 0 && !want[got] {
				// position of the first marker and the shortest gap before it, for the signature
				return false, "C19/ooxml-part-among-first-six-not-identified/" + c19Shape(zr, cs.In),
					fmt.Sprintf("%s: first entry is [Content_Types].xml and a word/, xl/ or ppt/ part is among the first six entries, expected one of %v, Detect reports %s", desc, keys(want), chainStr(m))
			}
		}
		if names[0] == "META-INF/MANIFEST.MF" {
			if got != mJar && got != mApk {
				return false, "C19/jar-first-entry-manifest-not-identified", fmt.Sprintf("%s: first entry is META-INF/MANIFEST.MF, Detect reports %s", desc, chainStr(m))
			}
			if got == mApk && !hasAPK(0) {
				return false, "C19/apk-without-marker", fmt.Sprintf("%s: APK verdict without an APK marker entry", desc)
			}
		}
		if names[0] == "mimetype" && f0.Method == zip.Store && len(f0.Extra) == 0 {
			rc, err := f0.Open()
			if err == nil {
				body, _ := io.ReadAll(rc)
				rc.Close()
				if want, ok := c19ODF[string(body)]; ok && got != want {
					return false, "C19/mimetype-first-entry-not-identified", fmt.Sprintf("%s: first entry is the stored mimetype file naming %q, Detect reports %s", desc, body, chainStr(m))
				}
			}
		}
	}
	// ---- converse clauses
	switch got {
	case mDocx:
		if !has("word/", 0) {
			return false, "C19/docx-without-marker", fmt.Sprintf("%s: docx verdict but no entry name starts with word/", desc)
		}
	case mXlsx:
		if !has("xl/", 0) {
			return false, "C19/xlsx-without-marker", fmt.Sprintf("%s: xlsx verdict but no entry name starts with xl/", desc)
		}
	case mPptx:
		if !has("ppt/", 0) {
			return false, "C19/pptx-without-marker", fmt.Sprintf("%s: pptx verdict but no entry name starts with ppt/", desc)
		}
	case mJar:
		if !has("META-INF/MANIFEST.MF", 0) {
			return false, "C19/jar-without-marker", fmt.Sprintf("%s: JAR verdict but no entry name starts with META-INF/MANIFEST.MF", desc)
		}
	case mApk:
		if !hasAPK(0) {
			return false, "C19/apk-without-marker", fmt.Sprintf("%s: APK verdict but no APK marker among the entry names", desc)
		}
	}
	switch got {
	case mDocx, mXlsx, mPptx, mJar, mApk:
		if p := m.Parent(); p == nil || p.String() != mZip {
			return false, "C19/parent-not-zip", fmt.Sprintf("%s: verdict %s whose parent is not application/zip", desc, chainStr(m))
		}
	}
	anyMarker := has("word/", 0) || has("xl/", 0) || has("ppt/", 0) || has("META-INF/MANIFEST.MF", 0) || hasAPK(0) || (len(names) > 0 && names[0] == "mimetype")
	if !anyMarker && got != mZip {
		return false, "C19/no-marker-but-not-plain-zip", fmt.Sprintf("%s: no marker among the entry names, Detect reports %s instead of application/zip", desc, chainStr(m))
	}
	return true, "", ""
}

func keys(m map[string]bool) []string {
	var out []string
	for k := range m {
		out = append(out, k[strings.LastIndex(k, ".")+1:])
	}
	return out
}

// c19Shape describes, for signatures, whether some entry before the first
// marker occupies fewer than 26 bytes between two local headers.
func c19Shape(zr *zip.Reader, raw []byte) string {
	var offs []int64
	for _, f := range zr.File {
		o, err := f.DataOffset()
		if err != nil {
			return "?"
		}
		offs = append(offs, o-int64(len(f.Name))-int64(len(f.Extra))) // start of the name = header + 30
	}
	for i := 1; i < len(offs) && i < 6; i++ {
		n := zr.File[i].Name
		if strings.HasPrefix(n, "word/") || strings.HasPrefix(n, "xl/") || strings.HasPrefix(n, "ppt/") {
			break
		}
		if i+1 < len(offs) && offs[i+1]-30-offs[i] < 26 && i >= 1 {
			return "short-entry-before-marker"
		}
	}
	return "other"
}

func c19Setup(c *core.Ctx) { c.Register("c19", c19Eval) }

func c19Run(c *core.Ctx) {
	markers := []string{"[Content_Types].xml", "word/document.xml", "word/", "xl/workbook.xml", "ppt/presentation.xml", "META-INF/MANIFEST.MF", "AndroidManifest.xml", "classes.dex", "resources.arsc", "res/drawable/x.png",
		// non-ASCII names: the writer sets the UTF-8 flag (bit 11) in their headers
		"word/\u00fcbersicht.xml", "xl/tabl\u00e9s/t1.xml"}
	book := []string{"_rels/.rels", "docProps/app.xml", "docProps/core.xml", "customXml/item1.xml", "[trash]/0000.dat"}
	near := []string{"Word/document.xml", "words/a.xml", "xword/document.xml", "xl", "pptx/p.xml", "META-INF/MANIFEST.MF.bak", "meta-inf/manifest.mf", "mimetypes"}
	// "PK" alone is not a zip signature: names (and bodies, below) may contain it
	other := []string{"README.txt", "index.html", "images/logo.png", "a.txt", "src/main/java/App.java", "d/", "customXml/PKG-INFO", "PK"}
	var menu []string
	menu = append(menu, markers...)
	menu = append(menu, book...)
	menu = append(menu, near...)
	menu = append(menu, other...)
	if false {
		// (formerly: a reduced menu for the quick tier)
		menu = []string{"[Content_Types].xml", "word/document.xml", "word/", "xl/workbook.xml", "ppt/presentation.xml", "META-INF/MANIFEST.MF", "classes.dex",
			"_rels/.rels", "docProps/app.xml", "customXml/item1.xml", "[trash]/0000.dat", "xword/document.xml", "xl", "META-INF/MANIFEST.MF.bak", "mimetypes", "README.txt", "a.txt", "d/"}
	}
	c.Info("menu", fmt.Sprint(len(menu)))
	text400 := bytes.Repeat([]byte("Lorem ipsum dolor sit amet, consectetur. "), 10)[:400]
	text2k := bytes.Repeat([]byte("<Override PartName=\"/word/x.xml\" ContentType=\"application/xml\"/>"), 32)
	bodies := [][]byte{nil, []byte("0123456789 abcdefghijklmnopqrstuvw"), text400, text2k, []byte("signed with PKCS#7, see the PK docs (PK\x03 is no signature either)")}
	cs := &core.Case{Kind: "c19"}
	var archives uint64
	run := func(entries []zipEntry, class string) {
		b := buildZip(entries)
		archives++
		cs.In, cs.Limit = b, 0
		c.R.States++
		c.R.Transitions++
		c.R.Evals++
		for _, e := range entries {
			if strings.HasPrefix(e.Name, "word/") || strings.HasPrefix(e.Name, "xl/") || strings.HasPrefix(e.Name, "ppt/") || strings.HasPrefix(e.Name, "META-INF/MANIFEST.MF") || e.Name == "mimetype" || e.Name == "classes.dex" {
				c.R.Nontrivial++
				break
			}
		}
		if c.Check(cs) {
			var ns []string
			for _, e := range entries {
				ns = append(ns, fmt.Sprintf("%s(%dB,st%d)", e.Name, len(e.Body), e.Storage))
			}
			c.Sample(class, ns)
		}
	}
	mk := func(names []string, storage int, body []byte, extra bool) []zipEntry {
		es := make([]zipEntry, len(names))
		for i, n := range names {
			es[i] = zipEntry{Name: n, Body: body, Storage: storage, Extra: extra}
			if strings.HasSuffix(n, "/") {
				es[i].Body = nil
			}
		}
		return es
	}
	// (A) all lists of length <= 3 over the menu x storage x body
	var rec func(names []string)
	rec = func(names []string) {
		if len(names) > 0 {
			for st := 0; st < 4; st++ {
				for bi, body := range bodies {
					if bi >= 2 && !c.Thorough() && st != 0 && st != 3 {
						continue
					}
					run(mk(names, st, body, false), "A:lists<=3")
				}
			}
			run(mk(names, 0, bodies[1], true), "A:lists<=3")
		}
		if len(names) == 3 {
			return
		}
		for _, n := range menu {
			if len(names) == 1 && (!c.Next() || c.Expired()) {
				continue
			}
			rec(append(names, n))
		}
	}
	// the empty list: an archive without entries consists of the end-of-central-
	// directory record alone (with and without an archive comment)
	if c.Mine(0) {
		for _, comment := range []string{"", "x", strings.Repeat("archive comment ", 8)} {
			var w bytes.Buffer
			zw := zip.NewWriter(&w)
			zw.SetComment(comment)
			zw.Close()
			archives++
			cs.In, cs.Limit = w.Bytes(), 0
			c.R.States++
			c.R.Transitions++
			c.R.Evals++
			c.R.Nontrivial++
			if c.Check(cs) {
				c.Sample("A:empty-list", fmt.Sprintf("no entries, comment %dB", len(comment)))
			}
		}
	}
	for _, n := range menu {
		if c.Mine(0) {
			for st := 0; st < 4; st++ {
				run(mk([]string{n}, st, bodies[1], false), "A:lists<=3")
			}
		}
	}
	for _, n := range menu {
		recFrom := []string{n}
		for _, n2 := range menu {
			if !c.Next() || c.Expired() {
				continue
			}
			l2 := append(recFrom, n2)
			for st := 0; st < 4; st++ {
				for bi, body := range bodies {
					if bi >= 2 && !c.Thorough() && st != 0 && st != 3 {
						continue
					}
					run(mk(l2, st, body, false), "A:lists<=3")
				}
			}
			run(mk(l2, 0, bodies[1], true), "A:lists<=3")
			for _, n3 := range menu {
				l3 := append(append([]string{}, l2...), n3)
				for st := 0; st < 4; st++ {
					for bi, body := range bodies {
						if bi == 2 && !c.Thorough() && st != 0 {
							continue
						}
						run(mk(l3, st, body, false), "A:lists<=3")
					}
				}
				if c.Thorough() {
					run(mk(l3, 0, bodies[1], true), "A:lists<=3")
				}
			}
		}
	}
	_ = rec
	// (B) lengths 4..7: [Content_Types].xml first, the marker at every position 2..L among fillers
	fillers := []string{"_rels/.rels", "docProps/app.xml", "customXml/item1.xml", "[trash]/0000.dat", "a.txt", "d/", "media/" + strings.Repeat("n", 300) + ".png", "customXml/PKG-INFO", "docProps/\u00fcber.xml"}
	for L := 4; L <= 7; L++ {
		fs := fillers
		if L >= 6 && !c.Thorough() {
			fs = []string{"_rels/.rels", "customXml/item1.xml", "a.txt"}
		}
		if L == 7 && c.Thorough() {
			fs = []string{"_rels/.rels", "docProps/app.xml", "customXml/item1.xml", "a.txt"}
		}
		nf := L - 2
		idx := make([]int, nf)
		for {
			if c.Next() && !c.Expired() {
				for _, marker := range []string{"word/document.xml", "xl/workbook.xml", "ppt/presentation.xml", "word/"} {
					for p := 1; p < L; p++ {
						names := []string{"[Content_Types].xml"}
						k := 0
						for i := 1; i < L; i++ {
							if i == p {
								names = append(names, marker)
							} else {
								names = append(names, fs[idx[k]])
								k++
							}
						}
						for st := 0; st < 4; st++ {
							body := bodies[(st+p)%2]
							if st == 3 {
								body = bodies[2+p%2]
							}
							run(mk(names, st, body, false), "B:marker-at-every-position")
						}
						run(mk(names, p%4, bodies[4], false), "B:marker-at-every-position")
					}
				}
			}
			i := 0
			for ; i < nf; i++ {
				idx[i]++
				if idx[i] < len(fs) {
					break
				}
				idx[i] = 0
			}
			if i == nf {
				break
			}
		}
	}
	// (C) mimetype-first packages
	// sorted: the units handed out by c.Next() must mean the same thing in every
	// worker process (map iteration order differs from process to process)
	var odfTypes []string
	for t := range c19ODF {
		odfTypes = append(odfTypes, t)
	}
	sort.Strings(odfTypes)
	for _, t := range odfTypes {
		if !c.Next() {
			continue
		}
		for _, st := range []int{1, 2} {
			for _, rest := range [][]string{{"content.xml"}, {"META-INF/manifest.xml", "content.xml", "word/x"}, {}} {
				es := []zipEntry{{Name: "mimetype", Body: []byte(t), Storage: st}}
				es = append(es, mk(rest, 0, bodies[1], false)...)
				run(es, "C:mimetype-first")
			}
		}
	}
	// (D) jar / apk
	for _, st := range []int{0, 1, 2, 3} {
		for _, rest := range [][]string{{}, {"a/B.class"}, {"classes.dex"}, {"a.txt", "b.txt", "c.txt", "d.txt", "classes.dex"}, {"a.txt", "b.txt", "c.txt", "d.txt", "e.txt", "f.txt", "classes.dex"}, {"res/drawable/x.png"}} {
			if !c.Next() {
				continue
			}
			names := append([]string{"META-INF/MANIFEST.MF"}, rest...)
			for _, body := range bodies {
				run(mk(names, st, body, false), "D:jar-apk")
			}
		}
	}
	c.Note("archives-written", archives)
}
