package checks

import (
	"fmt"
	"mime"
	"unicode/utf8"

	"github.com/gabriel-vasile/mimetype"
	"github.com/gabriel-vasile/mimetype/internal/verifx/core"
	"github.com/gabriel-vasile/mimetype/internal/verifx/ref"
)

// C11 — sniffed charset is truthful for undeclared text.
//
//	A. every byte string of length <= n over the 19-symbol class alphabet;
//	B. the same (shorter) strings behind each of the five BOMs;
//	C. real multilingual sentences cut at every limit, also re-encoded as
//	   ISO-8859-1 / Windows-1252 bytes.
//
// Observed through Detect(x).String() for results whose bare type is text/plain.
func init() { Registry["C11"] = &Check{Setup: c11Setup, Run: c11Run} }

var sigma11 = []byte{'a', '\n', 0x1B, 0x7F, 0x80, 0x85, 0x9F, 0xA9, 0xBF, 0xC0, 0xC3, 0xE0, 0xE2, 0xED, 0xF0, 0xF4, 0xF5, 0xFE, 0xFF}

func charsetOf(m *mimetype.MIME) (string, bool) {
	_, ps, err := mime.ParseMediaType(m.String())
	if err != nil {
		return "", false
	}
	return ps["charset"], true
}

func c11Eval(cs *core.Case) (bool, string, string) {
	m := detect(cs.In, cs.Limit)
	if bt := bare(m.String()); bt != "text/plain" {
		// Ints[0] == 1: a markup document without any encoding declaration; the
		// same rules hold for its text/html or text/xml result
		if !(len(cs.Ints) > 0 && cs.Ints[0] == 1 && (bt == "text/html" || bt == "text/xml")) {
			return true, "skip", ""
		}
	}
	h := header(cs.In, cs.Limit)
	got, ok := charsetOf(m)
	if !ok {
		return false, "C11/unparsable", "result " + m.String() + " does not parse"
	}
	// (a) BOM
	if boms := ref.BOMCharsets(h); len(boms) > 0 {
		for _, b := range boms {
			if got == b {
				return true, "", ""
			}
		}
		return false, "C11/a-bom/" + boms[0] + "-got-" + got,
			fmt.Sprintf("header %s starts with the %s byte-order mark but charset %q is reported (%s)", core.Quote(h), boms[0], got, m.String())
	}
	info := ref.AnalyzeUTF8(h)
	// self-check of the reference against unicode/utf8 on complete input
	if info.ValidApartFromCutTail && info.TailLen == 0 && !utf8.Valid(h) {
		return false, "C11/ref-self", fmt.Sprintf("reference says %q is well-formed but unicode/utf8 disagrees", h)
	}
	if utf8.Valid(h) && !(info.ValidApartFromCutTail && info.TailLen == 0) {
		return false, "C11/ref-self", fmt.Sprintf("reference says %q is malformed but unicode/utf8 accepts it", h)
	}
	// (b)
	if got == "utf-8" && !info.ValidApartFromCutTail {
		return false, "C11/b-utf8-reported-for-invalid",
			fmt.Sprintf("header %s is not valid UTF-8 (even allowing a multi-byte sequence cut off at the very end) but charset=utf-8 is reported", core.Quote(h))
	}
	// (c)
	if len(h) > 0 && info.ValidApartFromCutTail && (info.ASCIITextOnly || info.CompleteNonASCII > 0) && got != "utf-8" {
		why := "consists solely of ASCII text characters"
		k := "ascii"
		if info.CompleteNonASCII > 0 {
			why = fmt.Sprintf("is valid UTF-8 (cut tail of %d bytes) with %d complete non-ASCII characters", info.TailLen, info.CompleteNonASCII)
			k = fmt.Sprintf("nonascii-tail%d", info.TailLen)
		}
		return false, "C11/c-utf8-not-reported/" + k + "/got-" + got,
			fmt.Sprintf("header %s %s but charset %q is reported instead of utf-8 (%s)", core.Quote(h), why, got, m.String())
	}
	// (d)
	if got == "iso-8859-1" && info.HasC1 {
		return false, "C11/d-iso-8859-1-with-C1-byte", fmt.Sprintf("header %s contains a byte in 0x80-0x9F but iso-8859-1 is reported", core.Quote(h))
	}
	if got == "windows-1252" && !info.HasC1 {
		return false, "C11/d-windows-1252-without-C1-byte", fmt.Sprintf("header %s contains no byte in 0x80-0x9F but windows-1252 is reported", core.Quote(h))
	}
	return true, "", ""
}

func c11Setup(c *core.Ctx) { c.Register("c11", c11Eval) }

var c11Sentences = []string{
	"Le café est très bon, déjà vu à l'été.",
	"Straße, Größe, Übermut — “Anführung” …",
	"El niño comió piñas; ¿cuánto costó? ¡Mucho!",
	"Καλημέρα κόσμε, τι κάνεις;",
	"Привет, мир! Как дела?",
	"こんにちは世界、元気ですか。",
	"你好，世界！今天天气很好。",
	"안녕하세요 세계",
	"emoji 😀 mixed 𝄞 text ✓ done",
	"price: 10 € – “quoted” ‘single’ • bullet ™",
	"naïve façade coöperate São Paulo Ærøskøbing",
	"plain ascii line one\nline two\ttabbed\r\n",
	"Wait… what?",
	"x\u0085y next-line control",
	"caf\uFFFD au lait, d\u00e9j\u00e0 vu \uFFFD",
	"zero\u200Bwidth and \uFEFF inside, nbsp\u00A0here",
}

// toLatin re-encodes s as Windows-1252 / ISO-8859-1 bytes; ok=false when a
// character has no single-byte form.
func toLatin(s string) ([]byte, bool) {
	cp1252 := map[rune]byte{'€': 0x80, '‚': 0x82, 'ƒ': 0x83, '„': 0x84, '…': 0x85, '†': 0x86, '‡': 0x87, 'ˆ': 0x88, '‰': 0x89, 'Š': 0x8A, '‹': 0x8B, 'Œ': 0x8C, 'Ž': 0x8E, '‘': 0x91, '’': 0x92, '“': 0x93, '”': 0x94, '•': 0x95, '–': 0x96, '—': 0x97, '˜': 0x98, '™': 0x99, 'š': 0x9A, '›': 0x9B, 'œ': 0x9C, 'ž': 0x9E, 'Ÿ': 0x9F}
	var out []byte
	for _, r := range s {
		switch {
		case r < 0x80 || (r >= 0xA0 && r <= 0xFF):
			out = append(out, byte(r))
		default:
			b, ok := cp1252[r]
			if !ok {
				return nil, false
			}
			out = append(out, b)
		}
	}
	return out, true
}

func c11Run(c *core.Ctx) {
	n, nb := 5, 4
	if c.Thorough() {
		n, nb = 6, 5
	}
	c.Info("alphabet", fmt.Sprintf("%x", sigma11))
	c.Info("maxlen", fmt.Sprint(n))
	c.Info("maxlen_behind_bom", fmt.Sprint(nb))
	cs := &core.Case{Kind: "c11"}
	try := func(s []byte, limit uint32, class string) {
		cs.In, cs.Limit = s, limit
		c.R.States++
		c.R.Transitions++
		c.R.Evals++
		for _, b := range header(s, limit) {
			if b >= 0x80 {
				c.R.Nontrivial++
				break
			}
		}
		c.SampleCase(class, cs)
		c.Check(cs)
	}
	k := len(sigma11)
	var rec func(s []byte, max int, class string)
	rec = func(s []byte, max int, class string) {
		try(s, 0, class)
		if len(s) == max {
			return
		}
		for _, x := range sigma11 {
			rec(append(s, x), max, class)
		}
	}
	buf := make([]byte, 0, 16)
	unit := uint64(0)
	if c.Mine(unit) {
		try(nil, 0, "A:alphabet")
	}
	for i := 0; i < k; i++ {
		unit++
		if c.Mine(unit) {
			try([]byte{sigma11[i]}, 0, "A:alphabet")
		}
		for j := 0; j < k; j++ {
			unit++
			if c.Mine(unit) && !c.Expired() {
				rec(append(buf[:0], sigma11[i], sigma11[j]), n, "A:alphabet")
			}
		}
	}
	for _, bom := range ref.BOMs {
		for i := 0; i < k; i++ {
			unit++
			if c.Mine(unit) && !c.Expired() {
				rec(append(append(buf[:0], bom.Bytes...), sigma11[i]), len(bom.Bytes)+nb, "B:behind-bom")
			}
		}
		// UTF-16/32 text behind its BOM is full of NUL bytes: a,NUL,high byte combinations
		unit++
		if c.Mine(unit) && !c.Expired() {
			var recZ func(s []byte, max int)
			recZ = func(s []byte, max int) {
				try(s, 0, "B:behind-bom-with-NUL")
				if len(s) == max {
					return
				}
				for _, x := range []byte{0x00, 'a', 0xD8, 0xFF, 0x0A} {
					recZ(append(s, x), max)
				}
			}
			recZ(append(buf[:0], bom.Bytes...), len(bom.Bytes)+6)
		}
		unit++
		if c.Mine(unit) {
			try(bom.Bytes, 0, "B:behind-bom")
		}
	}
	// E: markup without a declared encoding. Prologues that hold no declaration
	// (but comments, scripts, other metas and pragmas that look like one) around
	// bodies of each byte class; the text/html / text/xml result obeys the same rules
	{
		ms := &core.Case{Kind: "c11", Ints: []int{1}}
		prologues := []string{
			`<html><body>`, `<!DOCTYPE html><html><head><title>t</title></head><body>`,
			`<html><!-- <meta charset="koi8-r"> --><body>`, `<html><head><script>var s='<meta charset="koi8-r">';</script></head><body>`,
			`<html><head><title><meta charset="koi8-r"></title></head><body>`,
			`<html><head><meta name="description" content="how to write charset=utf-8 in a page"></head><body>`,
			`<html><head><meta http-equiv="Content-Type" content="text/html"></head><body>`,
			`<html><head><meta http-equiv="Content-Type" content="text/html"><meta name="description" content="how to write charset=utf-8 in a page"></head><body>`,
			`<html><head><meta name="description" content="charset=utf-8"><meta http-equiv="Content-Type" content="text/html"></head><body>`,
			`<html><head><meta http-equiv="refresh" content="5; charset=utf-8"><meta name="viewport" content="width=device-width"></head><body>`,
			`<html><head><meta charset=""></head><body>`,
			`<?xml version="1.0"?><a>`, `<?xml version="1.0" standalone="yes"?><!-- encoding="koi8-r" --><a>`,
			// behind a byte-order mark: the mark decides, whatever follows
			"\xEF\xBB\xBF<?xml version=\"1.0\"?><a>", "\xEF\xBB\xBF<html><body>", "\xEF\xBB\xBF\n<?xml version=\"1.0\"?>\n<a>",
		}
		bodies := [][]byte{[]byte("plain words"), []byte("caf\xe9 au lait"), []byte("caf\xc3\xa9 au lait"), []byte("Wait\x85 voil\xe0"), []byte("\x93quoted\x94"), []byte("na\xc3"), []byte("x\xe2\x82"), []byte("d\xe9j\xe0 vu \xc3\xa9")}
		for pi, pro := range prologues {
			if !c.Mine(uint64(pi)) {
				continue
			}
			for _, body := range bodies {
				doc := append([]byte(pro), body...)
				ms.In = doc
				c.R.States++
				for _, l := range []uint32{0, 3072, uint32(len(doc)), uint32(len(doc) - 1)} {
					ms.Limit = l
					c.R.Transitions++
					c.R.Evals++
					c.R.Nontrivial++
					c.Check(ms)
				}
				c.SampleCase("E:undeclared-markup", ms)
			}
		}
	}
	// B2: every sequence of <= 3 items over specially encoded scalars (U+FFFD whose
	// decoding coincides with Go's error rune, BOM inside text, NEL, NBSP, the
	// last code points of each length, surrogate neighbours, noncharacters) and
	// ASCII, cut at every byte
	specials := [][]byte{
		{0xEF, 0xBF, 0xBD}, {0xEF, 0xBB, 0xBF}, {0xC2, 0x85}, {0xC2, 0xA0}, {0xC2, 0x80}, {0xDF, 0xBF}, {0xE0, 0xA0, 0x80},
		{0xED, 0x9F, 0xBF}, {0xEE, 0x80, 0x80}, {0xEF, 0xBF, 0xBF}, {0xEF, 0xBF, 0xBE}, {0xF0, 0x90, 0x80, 0x80}, {0xF4, 0x8F, 0xBF, 0xBF},
		{0xE2, 0x80, 0xA8}, {'a'}, {'\n'}, {0x7F},
	}
	for i := range specials {
		unit++
		if !c.Mine(unit) || c.Expired() {
			continue
		}
		for j := range specials {
			for k := -1; k < len(specials); k++ {
				s := append(append([]byte{'x'}, specials[i]...), specials[j]...)
				if k >= 0 {
					s = append(s, specials[k]...)
				}
				for cut := 1; cut <= len(s); cut++ {
					try(s[:cut], 0, "B2:special-scalars")
				}
				try(s[1:], 0, "B2:special-scalars")
			}
		}
	}
	// C: real text at every cut, and as Latin bytes
	for _, s := range c11Sentences {
		unit++
		if !c.Mine(unit) {
			continue
		}
		variants := [][]byte{[]byte(s)}
		if l, ok := toLatin(s); ok {
			variants = append(variants, l)
		}
		// 40 repetitions make the text longer than one could eyeball; cut everywhere in the first 2 copies
		for _, v := range variants {
			for cut := 1; cut <= len(v); cut++ {
				try(v, uint32(cut), "C:real-text-cut")
				try(v[:cut], 0, "C:real-text-cut")
			}
			try(v, 0, "C:real-text-cut")
			try(v, uint32(len(v)+1), "C:real-text-cut")
		}
	}
}
