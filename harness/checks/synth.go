package checks

import (
	"fmt"
	"archive/tar"
	"archive/zip"
	"bytes"
	"compress/flate"
	"encoding/binary"
	"hash/crc32"
	"strings"
	"time"
)

// zipEntry is one member for the archive/zip based generator.
type zipEntry struct {
	Name    string
	Body    []byte
	Storage int  // 0 deflate+descriptor (Create), 1 store+descriptor (CreateHeader), 2 store, sizes in local header (CreateRaw), 3 deflate, sizes in local header (CreateRaw)
	Extra   bool // extended timestamp extra field (Modified set)
}

var deflateCache = map[string][]byte{}

// buildZip writes the entries with the standard library's zip writer.
func buildZip(entries []zipEntry) []byte {
	var buf bytes.Buffer
	w := zip.NewWriter(&buf)
	for _, e := range entries {
		fh := &zip.FileHeader{Name: e.Name}
		if e.Extra {
			fh.Modified = time.Date(2020, 1, 2, 3, 4, 6, 0, time.UTC)
		}
		switch e.Storage {
		case 0:
			fh.Method = zip.Deflate
			f, err := w.CreateHeader(fh)
			if err != nil {
				panic(err)
			}
			f.Write(e.Body)
		case 1:
			fh.Method = zip.Store
			f, err := w.CreateHeader(fh)
			if err != nil {
				panic(err)
			}
			f.Write(e.Body)
		case 2:
			fh.Method = zip.Store
			fh.CRC32 = crc32.ChecksumIEEE(e.Body)
			fh.CompressedSize64 = uint64(len(e.Body))
			fh.UncompressedSize64 = uint64(len(e.Body))
			f, err := w.CreateRaw(fh)
			if err != nil {
				panic(err)
			}
			f.Write(e.Body)
		case 3:
			// deflated, sizes recorded in the local header, no data descriptor
			// (what Info-ZIP and office suites write)
			comp, ok := deflateCache[string(e.Body)]
			if !ok {
				var cb bytes.Buffer
				fw, _ := flate.NewWriter(&cb, flate.BestCompression)
				fw.Write(e.Body)
				fw.Close()
				comp = cb.Bytes()
				deflateCache[string(e.Body)] = comp
			}
			cb := bytes.NewBuffer(comp)
			fh.Method = zip.Deflate
			fh.CRC32 = crc32.ChecksumIEEE(e.Body)
			fh.CompressedSize64 = uint64(cb.Len())
			fh.UncompressedSize64 = uint64(len(e.Body))
			f, err := w.CreateRaw(fh)
			if err != nil {
				panic(err)
			}
			f.Write(cb.Bytes())
		}
	}
	if err := w.Close(); err != nil {
		panic(err)
	}
	return buf.Bytes()
}

func buildTar(format tar.Format, hdrs ...*tar.Header) ([]byte, error) {
	var buf bytes.Buffer
	w := tar.NewWriter(&buf)
	for _, h := range hdrs {
		hh := *h
		hh.Format = format
		if err := w.WriteHeader(&hh); err != nil {
			return nil, err
		}
		if hh.Typeflag == tar.TypeReg && hh.Size > 0 && hh.Size <= 4096 {
			w.Write(bytes.Repeat([]byte("x"), int(hh.Size)))
		}
	}
	w.Flush()
	return buf.Bytes(), nil
}

// oleHeader builds a compound-file header + directory sector with the given
// root CLSID. v4 uses 4096-byte sectors.
func oleHeader(v4 bool, clsid []byte, firstDirSector uint32) []byte {
	sector := 512
	if v4 {
		sector = 4096
	}
	b := make([]byte, sector*(2+int(firstDirSector)))
	copy(b, []byte{0xD0, 0xCF, 0x11, 0xE0, 0xA1, 0xB1, 0x1A, 0xE1})
	b[24], b[25] = 0x3E, 0x00
	if v4 {
		b[26], b[27] = 0x04, 0x00
	} else {
		b[26], b[27] = 0x03, 0x00
	}
	b[28], b[29] = 0xFE, 0xFF
	binary.LittleEndian.PutUint32(b[48:], firstDirSector)
	off := sector*(1+int(firstDirSector)) + 80
	copy(b[off:], clsid)
	return b
}

func ftypBox(brand string) []byte {
	return append([]byte{0, 0, 0, 0x18, 'f', 't', 'y', 'p'}, append([]byte(brand), 0, 0, 0, 0, 'i', 's', 'o', 'm', 'm', 'p', '4', '1')...)
}

// synthWitnesses returns generated witnesses that the repository's test table
// lacks, so that every node of the tree is reached by at least one input, plus
// structured archives / containers of varying shapes.
func synthWitnesses() []Witness {
	var out []Witness
	add := func(name string, d []byte) { out = append(out, Witness{Name: "synth/" + name, Data: d}) }

	add("cbor", []byte{0xD9, 0xD9, 0xF7, 0xA1, 0x61, 0x61, 0x01})
	// TZif (RFC 8536) version 2 files over a small product of the six counts,
	// leap-second records included (zoneinfo/right/*): header, v1 block, second
	// header, v2 block, footer
	for _, cnt := range [][6]uint32{{0, 0, 0, 0, 1, 4}, {1, 1, 0, 2, 1, 4}, {2, 2, 1, 3, 2, 8}, {0, 0, 27, 5, 2, 8}, {1, 1, 3, 0, 1, 4}} {
		hdr := func(ver byte) []byte {
			h := make([]byte, 44)
			copy(h, "TZif")
			h[4] = ver
			for i, v := range cnt {
				binary.BigEndian.PutUint32(h[20+4*i:], v)
			}
			return h
		}
		isut, isstd, leap, tim, typ, chr := int(cnt[0]), int(cnt[1]), int(cnt[2]), int(cnt[3]), int(cnt[4]), int(cnt[5])
		block := func(tsz int) []byte {
			b := make([]byte, tim*tsz+tim+typ*6+chr+leap*(tsz+4)+isstd+isut)
			for i := range b {
				b[i] = byte(i%3) // small values: valid type indices, no accidental magic
			}
			return b
		}
		var d []byte
		d = append(d, hdr('2')...)
		d = append(d, block(4)...)
		d = append(d, hdr('2')...)
		d = append(d, block(8)...)
		d = append(d, "\nUTC0\n"...)
		add(fmt.Sprintf("tzif-v2-leap%d-time%d", leap, tim), d)
	}
	aaf := make([]byte, 64)
	copy(aaf, []byte{0xD0, 0xCF, 0x11, 0xE0, 0xA1, 0xB1, 0x1A, 0xE1, 0x41, 0x41, 0x46, 0x42, 0x0D, 0x00, 0x4F, 0x4D})
	aaf[30] = 0x09
	add("aaf", aaf)
	add("apk", buildZip([]zipEntry{{Name: "AndroidManifest.xml", Body: []byte("<manifest/>")}, {Name: "classes.dex", Body: []byte("dex\n035")}}))
	add("apk-after-manifest", buildZip([]zipEntry{{Name: "META-INF/MANIFEST.MF", Body: []byte("Manifest-Version: 1.0\n")}, {Name: "classes.dex", Body: []byte("dex")}}))
	add("parquet", []byte("PAR1\x15\x04\x15\x10"))
	add("exe", append([]byte("MZ\x90\x00\x03\x00\x00\x00\x04\x00\x00\x00\xff\xff\x00\x00"), make([]byte, 48)...))
	add("torrent", []byte("d8:announce35:udp://tracker.example.org:80/announcee"))
	for i, t := range []byte{1, 2, 3, 4} {
		elf := make([]byte, 64)
		copy(elf, []byte{0x7F, 'E', 'L', 'F', 2, 1, 1, 0})
		elf[16] = t
		add("elf-le-"+string('0'+rune(i)), elf)
		elf2 := append([]byte{}, elf...)
		elf2[5], elf2[16], elf2[17] = 2, 0, t
		add("elf-be-"+string('0'+rune(i)), elf2)
	}
	add("macho-64le", []byte{0xCF, 0xFA, 0xED, 0xFE, 7, 0, 0, 1, 3, 0, 0, 0, 2, 0, 0, 0})
	add("macho-32be", []byte{0xFE, 0xED, 0xFA, 0xCE, 0, 0, 0, 7, 0, 0, 0, 3})
	add("macho-fat", []byte{0xCA, 0xFE, 0xBA, 0xBE, 0, 0, 0, 2, 0, 0, 0, 7})
	for _, b := range []string{"hevc", "hevx", "msf1", "hevm", "mj2s", "mjp2", "dby1", "dvr1", "M4V ", "M4VH", "heic", "mif1", "avif", "3gp4", "3g2a", "M4A ", "F4A ", "mqt ", "isom", "qt  "} {
		add("ftyp-"+strings.TrimSpace(b), ftypBox(b))
	}
	add("jxs", []byte{0x00, 0x00, 0x00, 0x0C, 0x4A, 0x58, 0x53, 0x20, 0x0D, 0x0A, 0x87, 0x0A, 0, 0, 0, 0x14})
	add("icns", []byte("icns\x00\x00\x10\x00ic07"))

	// zip family
	ct := zipEntry{Name: "[Content_Types].xml", Body: []byte(`<?xml version="1.0"?><Types/>`)}
	rels := zipEntry{Name: "_rels/.rels", Body: []byte(`<Relationships/>`)}
	for _, k := range []struct{ n, part string }{{"docx", "word/document.xml"}, {"xlsx", "xl/workbook.xml"}, {"pptx", "ppt/presentation.xml"}} {
		add("ooxml-"+k.n, buildZip([]zipEntry{ct, rels, {Name: k.part, Body: []byte("<x/>")}}))
		add("ooxml-"+k.n+"-stored", buildZip([]zipEntry{{Name: ct.Name, Body: ct.Body, Storage: 2}, {Name: k.part, Body: []byte("<x/>"), Storage: 2}}))
	}
	add("jar", buildZip([]zipEntry{{Name: "META-INF/MANIFEST.MF", Body: []byte("Manifest-Version: 1.0\n")}, {Name: "a/B.class", Body: []byte{0xCA, 0xFE, 0xBA, 0xBE}}}))
	for _, t := range []string{"application/vnd.oasis.opendocument.text", "application/vnd.oasis.opendocument.text-template", "application/vnd.oasis.opendocument.spreadsheet", "application/vnd.oasis.opendocument.spreadsheet-template", "application/vnd.oasis.opendocument.presentation", "application/vnd.oasis.opendocument.presentation-template", "application/vnd.oasis.opendocument.graphics", "application/vnd.oasis.opendocument.graphics-template", "application/vnd.oasis.opendocument.formula", "application/vnd.oasis.opendocument.chart", "application/epub+zip", "application/vnd.sun.xml.calc"} {
		add("odf-"+t, buildZip([]zipEntry{{Name: "mimetype", Body: []byte(t), Storage: 2}, {Name: "content.xml", Body: []byte("<x/>")}}))
	}
	add("zip-plain", buildZip([]zipEntry{{Name: "README.txt", Body: []byte("hello")}, {Name: "b/c.txt", Body: []byte("world")}}))
	add("zip-empty", buildZip(nil))

	// tar family
	for _, f := range []tar.Format{tar.FormatUSTAR, tar.FormatPAX, tar.FormatGNU} {
		if b, err := buildTar(f, &tar.Header{Name: "dir/file.txt", Mode: 0o644, Size: 5, Typeflag: tar.TypeReg, ModTime: time.Unix(1700000000, 0)}); err == nil {
			add("tar-"+f.String(), b)
		}
		if b, err := buildTar(f, &tar.Header{Name: strings.Repeat("n", 120), Mode: 0o644, Size: 0, Typeflag: tar.TypeReg, ModTime: time.Unix(1700000000, 0)}); err == nil {
			add("tar-longname-"+f.String(), b)
		}
	}

	// OLE family
	clsids := map[string][]byte{
		"doc": {0x06, 0x09, 0x02, 0x00, 0x00, 0x00, 0x00, 0x00, 0xc0, 0x00, 0x00, 0x00, 0x00, 0x00, 0x00, 0x46},
		"xls": {0x10, 0x08, 0x02, 0x00, 0x00, 0x00, 0x00, 0x00, 0xc0, 0x00, 0x00, 0x00, 0x00, 0x00, 0x00, 0x46},
		"ppt": {0x10, 0x8d, 0x81, 0x64, 0x9b, 0x4f, 0xcf, 0x11, 0x86, 0xea, 0x00, 0xaa, 0x00, 0xb9, 0x29, 0xe8},
		"pub": {0x01, 0x12, 0x02, 0x00, 0x00, 0x00, 0x00, 0x00, 0x00, 0xC0, 0x00, 0x00, 0x00, 0x00, 0x00, 0x46},
		"msg": {0x0B, 0x0D, 0x02, 0x00, 0x00, 0x00, 0x00, 0x00, 0xC0, 0x00, 0x00, 0x00, 0x00, 0x00, 0x00, 0x46},
		"msi": {0x84, 0x10, 0x0C, 0x00, 0x00, 0x00, 0x00, 0x00, 0xC0, 0x00, 0x00, 0x00, 0x00, 0x00, 0x00, 0x46},
		"none": make([]byte, 16),
	}
	for _, k := range []string{"doc", "xls", "ppt", "pub", "msg", "msi", "none"} {
		add("ole3-"+k, oleHeader(false, clsids[k], 0))
		add("ole3-"+k+"-sec2", oleHeader(false, clsids[k], 2))
	}
	add("ole4-doc", oleHeader(true, clsids["doc"], 0))
	o := oleHeader(false, clsids["none"], 1)
	copy(o[512:], []byte{0xFD, 0xFF, 0xFF, 0xFF, 0x10})
	add("ole3-xls-subheader", o)
	o2 := oleHeader(false, clsids["none"], 1)
	copy(o2[512:], []byte{0xA0, 0x46, 0x1D, 0xF0})
	add("ole3-ppt-subheader", o2)
	o3 := oleHeader(false, clsids["none"], 2)
	copy(o3[1200:], []byte("P\x00o\x00w\x00e\x00r\x00P\x00o\x00i\x00n\x00t\x00 D\x00o\x00c\x00u\x00m\x00e\x00n\x00t"))
	add("ole3-ppt-name", o3)

	// CRX, Matroska
	crx := append([]byte("Cr24\x02\x00\x00\x00\x04\x00\x00\x00\x03\x00\x00\x00"), 1, 2, 3, 4, 5, 6, 7)
	crx = append(crx, []byte("PK\x03\x04rest")...)
	add("crx", crx)
	add("mkv", append([]byte("\x1A\x45\xDF\xA3\x93\x42\x82\x88matroska"), 0x42, 0x87, 0x81, 0x04))
	add("webm", append([]byte("\x1A\x45\xDF\xA3\x9F\x42\x86\x81\x01\x42\x82\x84webm"), 0x42, 0x87))

	// text family extras
	add("json-nested", []byte(strings.Repeat("[", 40)+`{"a":[1,2,{"b":null}]}`+strings.Repeat("]", 40)))
	add("geojson", []byte(`{"type":"FeatureCollection","features":[{"type":"Feature","geometry":{"type":"Point","coordinates":[1,2]}}]}`))
	add("har", []byte(`{"log":{"version":"1.2","creator":{"name":"x"},"entries":[]}}`))
	add("gltf", []byte(`{"asset":{"version":"2.0"},"scenes":[{"nodes":[0]}]}`))
	add("ndjson", []byte("{\"a\":1}\n{\"a\":2}\n[3]\n"))
	add("csv", []byte("a,b,c\n1,2,3\n4,5,6\n"))
	add("tsv", []byte("a\tb\tc\n1\t2\t3\n4\t5\t6\n"))
	add("html-meta", []byte(`<!DOCTYPE html><html><head><meta charset="iso-8859-2"><title>t</title></head><body>x</body></html>`))
	add("xml-enc", []byte(`<?xml version="1.0" encoding="ISO-8859-1"?><a>b</a>`))
	add("svg", []byte(`<svg xmlns="http://www.w3.org/2000/svg" width="1" height="1"/>`))
	add("php-shebang", []byte("#!/usr/bin/env php\n<?php echo 1;"))
	add("python", []byte("#!/usr/bin/env python\nprint(1)\n"))
	add("srt", []byte("1\n00:02:16,612 --> 00:02:19,376\nHello\n"))
	add("vtt", []byte("WEBVTT\n\n00:01.000 --> 00:04.000\nHi\n"))
	add("utf16le-bom", []byte{0xFF, 0xFE, 'a', 0, 'b', 0})
	add("utf32be-bom", []byte{0, 0, 0xFE, 0xFF, 0, 0, 0, 'a'})
	add("latin1", []byte("caf\xe9 cr\xe8me br\xfbl\xe9e"))
	add("empty", nil)
	return out
}
