package checks

// synthWitnesses returns generated witnesses that the test table lacks
// (filled in as the checks that need them are built).
func synthWitnesses() []Witness {
	var out []Witness
	add := func(name string, d []byte) { out = append(out, Witness{Name: "synth/" + name, Data: d}) }
	_ = add
	return out
}
