package checks

// declSyntaxDocs enumerates, exhaustively over small token alphabets, documents
// whose XML declaration or HTML <meta> tag is syntactically degenerate:
// missing values, dangling '=', unbalanced quotes, repeated keywords, empty
// attributes. They exercise the charset helpers' cursor arithmetic (a crash or a
// hang there is a C01 matter, an invalid result a C02 matter).
func declSyntaxDocs(maxXML, maxMeta int, mine func() bool, f func(doc []byte)) {
	xmlToks := []string{` version="1.0"`, ` encoding`, `=`, `"`, `'`, `x`, ` `, `utf-8`, ` standalone="yes"`, `?`}
	var rec func(prefix string, toks []string, depth, max int, close string, first bool)
	rec = func(prefix string, toks []string, depth, max int, close string, first bool) {
		f([]byte(prefix + close))
		f([]byte(prefix + close + "<a/>"))
		if depth == max {
			return
		}
		for _, t := range toks {
			if first && mine != nil && !mine() {
				continue
			}
			rec(prefix+t, toks, depth+1, max, close, false)
		}
	}
	rec(`<?xml`, xmlToks, 0, maxXML, `?>`, true)
	rec(`<?xml version="1.0"`, xmlToks[1:], 0, maxXML, `?>`, true)
	metaToks := []string{`charset`, `content`, `http-equiv`, `=`, `"`, `'`, `x`, `;`, ` `, `text/html`, `content-type`, `/`}
	rec(`<html><meta `, metaToks, 0, maxMeta, `>`, true)
	rec(`<html><meta http-equiv="Content-Type" content="`, []string{`charset`, `=`, `'`, `x`, `;`, ` `, `text/html`, `,`}, 0, maxMeta+1, `">`, true)
}
