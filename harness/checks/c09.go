package checks

import (
	"bytes"
	stdjson "encoding/json"
	"fmt"
	"strings"

	"github.com/gabriel-vasile/mimetype/internal/verifx/core"
	"github.com/gabriel-vasile/mimetype/internal/verifx/ref"
)

// C09 — malformed JSON is not reported as JSON.
//
//	A. every byte string of length <= n over sigma09 that starts with '[' or '{'
//	   (both modes), all of them through Detect up to length nDetect and through
//	   the json node's detector (Detect only when that accepts) above;
//	B. every string of length <= 4 over sigma09 u {'[','{' anywhere}, with and
//	   without leading whitespace (nothing that is not a container is JSON);
//	C. mutation closure: every generated valid document (<= T tokens) x every
//	   single-token deletion / insertion / substitution / adjacent swap.
//
// Oracle: JSON-family verdict in whole mode => ref says Complete; in truncated
// mode => ref says not Dead. (Only this direction; C08 is the converse.)
func init() { Registry["C09"] = &Check{Setup: c09Setup, Run: c09Run} }

// 0xC3: a UTF-8 lead byte (a scanner that trusts the length a lead byte announces
// steps over the closing quote)
var sigma09 = []byte("{}[],:\"\\1a -.eu\n\xc3")

// c09Eval: Limit semantics as in Detect. Ints[0]==1 => fast path allowed.
func c09Eval(cs *core.Case) (bool, string, string) {
	if len(cs.Ints) > 0 && cs.Ints[0] == 1 {
		det := nodeDetector("application/json", ".json")
		if det != nil && !det(header(cs.In, cs.Limit), cs.Limit) {
			return true, "", ""
		}
	}
	m := detect(cs.In, cs.Limit)
	if !jsonFamily(m) {
		return true, "", ""
	}
	h := header(cs.In, cs.Limit)
	whole := cs.Limit == 0 || uint64(len(cs.In)) < uint64(cs.Limit)
	info := ref.ClassifyDoc(h)
	if whole && info.Status != ref.Complete {
		return false, "C09/whole-mode-json-but-" + info.Status.String() + "/" + shape09(h),
			fmt.Sprintf("whole input %s (limit %d) is reported as %s but the reference recogniser of the relaxed grammar says %s (stopped at byte %d)", core.Quote(h), cs.Limit, chainStr(m), info.Status, info.End)
	}
	if !whole && info.Status == ref.Dead {
		return false, "C09/truncated-mode-json-but-Dead/" + shape09(h),
			fmt.Sprintf("header %s (limit %d, input length %d) is reported as %s but no document of the relaxed grammar starts with these bytes (reference dead at byte %d)", core.Quote(h), cs.Limit, len(cs.In), chainStr(m), info.End)
	}
	return true, "", ""
}

// shape09 classifies a failing input for signatures: "opener-only" for
// ws* [ or { alone; otherwise a structural skeleton (strings/numbers folded).
func shape09(h []byte) string {
	i := 0
	for i < len(h) && (h[i] == ' ' || h[i] == '\t' || h[i] == '\r' || h[i] == '\n') {
		i++
	}
	if i == len(h)-1 && (h[i] == '[' || h[i] == '{') {
		return "opener-only"
	}
	return "inner-failure"
}

func c09Setup(c *core.Ctx) {
	c.Register("c09", c09Eval)
	c.Register("c09ref", c09RefSelf)
}

// c09RefSelf validates the reference itself against encoding/json and against
// its own prefix closure: Valid => Complete; Complete => every prefix not Dead.
func c09RefSelf(cs *core.Case) (bool, string, string) {
	info := ref.ClassifyDoc(cs.In)
	first := byte(0)
	for _, b := range cs.In {
		if b != ' ' && b != '\t' && b != '\r' && b != '\n' {
			first = b
			break
		}
	}
	if stdjson.Valid(cs.In) && (first == '[' || first == '{') && info.Status != ref.Complete {
		return false, "C09/ref-self/valid-not-complete", fmt.Sprintf("reference rejects %s which encoding/json accepts", core.Quote(cs.In))
	}
	if info.Status == ref.Complete {
		for k := 0; k < len(cs.In); k++ {
			if ref.ClassifyDoc(cs.In[:k]).Status == ref.Dead {
				return false, "C09/ref-self/prefix-dead", fmt.Sprintf("reference: %s complete but prefix of length %d dead", core.Quote(cs.In), k)
			}
		}
	}
	if info.Status == ref.Dead {
		// Dead must be monotone: no extension may revive it (spot: the extension by each alphabet symbol)
		for _, x := range sigma09 {
			if ref.ClassifyDoc(append(append([]byte{}, cs.In...), x)).Status != ref.Dead {
				return false, "C09/ref-self/dead-revived", fmt.Sprintf("reference: %s dead but extension by %q is not", core.Quote(cs.In), x)
			}
		}
	}
	return true, "", ""
}

func c09Run(c *core.Ctx) {
	cs := &core.Case{Kind: "c09", Ints: []int{0}}
	refcs := &core.Case{Kind: "c09ref"}
	nDetect, n := 6, 7
	if c.Thorough() {
		nDetect, n = 7, 8
	}
	c.Info("A.alphabet", string(sigma09))
	c.Info("A.maxlen", fmt.Sprint(n))
	c.Info("A.maxlen_all_through_Detect", fmt.Sprint(nDetect))

	try := func(s []byte, fast int, class string, selfcheck bool) {
		c.R.States++
		cs.In, cs.Ints[0] = s, fast
		st := ref.ClassifyDoc(s).Status
		if st != ref.Complete {
			c.R.Nontrivial++ // malformed or incomplete: the mechanism under test
		}
		for _, l := range []uint32{0, uint32(len(s)), uint32(len(s) + 1)} {
			cs.Limit = l
			c.R.Transitions++
			c.R.Evals++
			c.Check(cs)
		}
		if selfcheck {
			refcs.In = s
			c.Check(refcs)
		}
		c.SampleCase(class, cs)
	}

	// A
	k := len(sigma09)
	buf := make([]byte, 0, 16)
	var rec func(s []byte)
	rec = func(s []byte) {
		fast := 0
		if len(s) > nDetect {
			fast = 1
		}
		try(s, fast, "A:alphabet-strings", len(s) <= 6)
		if len(s) == n {
			return
		}
		for _, x := range sigma09 {
			rec(append(s, x))
		}
	}
	unit := uint64(0)
	for _, open := range []byte("[{") {
		if c.Mine(unit) {
			try([]byte{open}, 0, "A:alphabet-strings", true)
		}
		unit++
		for i := 0; i < k; i++ {
			if c.Mine(unit) {
				try([]byte{open, sigma09[i]}, 0, "A:alphabet-strings", true)
			}
			unit++
			for j := 0; j < k; j++ {
				if c.Mine(unit) && !c.Expired() {
					for _, x := range sigma09 {
						rec(append(buf[:0], open, sigma09[i], sigma09[j], x))
					}
					try([]byte{open, sigma09[i], sigma09[j]}, 0, "A:alphabet-strings", true)
				}
				unit++
			}
		}
	}

	// B: arbitrary first byte, length <= 4, optional leading whitespace.
	for _, lead := range []string{"", " ", "\n\t "} {
		for i := 0; i < k; i++ {
			if !c.Mine(unit) {
				unit++
				continue
			}
			unit++
			var recB func(s []byte)
			recB = func(s []byte) {
				try(append([]byte(lead), s...), 0, "B:any-first-byte", false)
				if len(s) == 4 {
					return
				}
				for _, x := range sigma09 {
					recB(append(s, x))
				}
			}
			recB([]byte{sigma09[i]})
		}
	}

	// D: literal fragments: every proper or full prefix of true / false / null
	// followed by up to two symbols, in four contexts, both modes and every cut
	{
		follow := []string{"", "x", "e", "r", "l", "]", "}", ",", " ", "\"", "1", ":", "t", "n", "s", "!"}
		for _, lit := range []string{"true", "false", "null"} {
			for k := 1; k <= len(lit); k++ {
				if !c.Next() || c.Expired() {
					continue
				}
				for _, f1 := range follow {
					for _, f2 := range follow {
						if f1 == "" && f2 != "" {
							continue
						}
						for _, ctx := range []string{"[", "[1,", `{"a":`, "[[", `{"a":[1,`, "[ "} {
							s := []byte(ctx + lit[:k] + f1 + f2)
							try(s, 0, "D:literal-fragments", false)
							cs.In, cs.Ints[0] = append(append([]byte{}, s...), "]]}}"...), 0
							for cut := len(ctx) + 1; cut <= len(s); cut++ {
								cs.Limit = uint32(cut)
								c.R.Transitions++
								c.R.Evals++
								c.Check(cs)
							}
						}
					}
				}
			}
		}
	}

	// E: \u escapes with every byte value in each of the four digit positions
	// (ASCII alphabets cannot tell a classifier that folds non-ASCII bytes onto
	// hex digits), in an array and as a key, whole and cut after the escape
	{
		for posn := 0; posn < 4; posn++ {
			if !c.Mine(uint64(posn)) || c.Expired() {
				continue
			}
			for b := 0; b < 256; b++ {
				esc := []byte("00e9")
				esc[posn] = byte(b)
				for _, tmpl := range []string{"[\"\\u%s\"]", "{\"\\u%s\":1}", "[1,{\"k\":\"a\\u%sz\"}]", "[\"\\u%s\xc3\xa9\"]"} {
					doc := []byte(strings.Replace(tmpl, "%s", string(esc), 1))
					try(doc, 0, "E:escape-digit-bytes", false)
					// the same document behind a tail, cut right after the escape
					i := bytes.Index(doc, esc) + 4
					cs.In, cs.Ints[0] = append(append([]byte{}, doc...), " , 1]"...), 0
					for _, cut := range []int{i - 1, i, i + 1} {
						cs.Limit = uint32(cut)
						c.R.Transitions++
						c.R.Evals++
						c.Check(cs)
					}
				}
			}
		}
	}

	// F: every byte >= 0x80 inside a string or key, directly in front of the
	// closing quote, followed by material that would re-close an over-long string
	if c.Mine(4) {
		for b := 0x80; b <= 0xFF; b++ {
			for _, tmpl := range []string{"[\"%\"]\"]", "[\"%\", \"]", "{\"k%\":1,\":2}", "[\"%\"]]\"]", "{\"a\":\"%\"}1\"}", "[\"%\"]\"\"\"]", "[\"a%\",\"b\"]"} {
				doc := []byte(strings.Replace(tmpl, "%", string([]byte{byte(b)}), 1))
				try(doc, 0, "F:high-byte-before-closing-quote", false)
			}
		}
	}

	// C: mutation closure of valid documents.
	T := 7
	if c.Thorough() {
		T = 9
	}
	c.Info("C.max_tokens", fmt.Sprint(T))
	g := &tokGen{maxTok: T, maxDepth: 4, scalars: []string{"1", `"a"`, "true"}, keys: []string{`"k"`, `"type"`}}
	alphabet := []string{"[", "]", "{", "}", ",", ":", "1", `"a"`, "true", `"k"`, ";", "=", "'", "(", "#", "/", "\\", "\x00", "\n", ",,", "nul", "-", "1.2.3", `"\u12"`, `"\x"`, "\xff"}
	docs := uint64(0)
	g.run(3, c.Next, func(toks []string) {
		if c.Expired() {
			return
		}
		docs++
		mut := make([]string, 0, len(toks)+1)
		emit := func(m []string) {
			s := joinToks(m, "")
			if len(s) == 0 {
				return
			}
			try(s, 1, "C:token-mutants", false)
		}
		for p := 0; p <= len(toks); p++ {
			for _, a := range alphabet { // insertion at p
				mut = append(append(append(mut[:0], toks[:p]...), a), toks[p:]...)
				emit(mut)
			}
			if p == len(toks) {
				break
			}
			mut = append(append(mut[:0], toks[:p]...), toks[p+1:]...) // deletion
			emit(mut)
			for _, a := range alphabet { // substitution
				if a == toks[p] {
					continue
				}
				mut = append(append(append(mut[:0], toks[:p]...), a), toks[p+1:]...)
				emit(mut)
			}
			if p+1 < len(toks) { // adjacent swap
				mut = append(mut[:0], toks...)
				mut[p], mut[p+1] = mut[p+1], mut[p]
				emit(mut)
			}
		}
	})
	c.Note("C.valid-documents-mutated", docs)
	c.R.States += g.states
	c.R.Transitions += g.trans
}
