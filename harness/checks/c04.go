package checks

import (
	"time"
	"bytes"
	"fmt"
	"os"
	"reflect"
	"strconv"
	"sort"
	"strings"

	"github.com/gabriel-vasile/mimetype"
	"github.com/gabriel-vasile/mimetype/internal/verifx/core"
	"github.com/gabriel-vasile/mimetype/internal/verifx/explore"
	"github.com/gabriel-vasile/mimetype/internal/verifx/sched"
	"github.com/gabriel-vasile/mimetype/internal/verifx/vsync"
)

// C04 — detection is a pure function of the examined header.
//
// Part H (histories): explicit-state breadth-first search over sequences of
// detections that leave the pooled scratch state dirty. A state is the abstract
// content of the sync.Pools (read through the vsync shim: per idle JSON parser
// its dirty flags, first token and path-stack capacity class; per idle CSV
// reader whether bytes are buffered / an error is latched). A state is built by
// emptying the pools and replaying the shortest history. In every state every
// probe must give the answer it gives in the pristine state; which pooled
// object each Pool.Get hands out is an environment answer owned by the
// explorer (default: most recently released; deviations: any other idle
// object or a fresh one).
//
// Part B (beyond the limit): for every probe and every limit L < len the bytes
// beyond L are replaced by five fillers — same answer; the caller's buffer and
// 64 bytes of spare capacity are unchanged after Detect.
func init() {
	Registry["C04"] = &Check{Setup: c04Setup, Run: c04Run}
	subs["c04fresh"] = c04FreshChild
}

var c04PairLimits = []uint32{0, 3072, 8}

// c04FreshChild: args = witness index; prints the answers of a process whose
// very first detections these are (truly pristine: no pools, caches or other
// cross-call state can have been touched), one line per (limit, entry point).
func c04FreshChild(c *core.Ctx, args []string) int {
	W := corpus(c)
	for _, a := range args {
		i, _ := strconv.Atoi(a)
		if i < 0 || i >= len(W) {
			return 2
		}
		for _, l := range c04PairLimits {
			mimetype.SetLimit(l)
			fmt.Println(chainStr(mimetype.Detect(append([]byte{}, W[i].Data...))))
			m, err := mimetype.DetectReader(bytes.NewReader(W[i].Data))
			fmt.Println(chainStr(m), err)
		}
	}
	return 0
}

var c04FreshCache = map[int][]string{}

func c04FreshAnswers(c *core.Ctx, j int) []string {
	if a, ok := c04FreshCache[j]; ok {
		return a
	}
	self, _ := os.Executable()
	out, err, _ := runChild(5*time.Minute, nil, self, "C04", "--sub", "c04fresh", "--home", c.Home, "--repo", c.Repo, "--", strconv.Itoa(j))
	var a []string
	if err == nil {
		a = strings.Split(strings.TrimSpace(out), "\n")
	}
	c04FreshCache[j] = a
	return a
}

// c04PairEval: Ints = [i, j]: detect witness i (all limits, both entry points),
// then witness j must answer exactly as a fresh process answers.
func c04PairEval(cs *core.Case) (bool, string, string) {
	W := corpus(c04ctx)
	i, j := cs.Ints[0], cs.Ints[1]
	want := c04FreshAnswers(c04ctx, j)
	if len(want) != 2*len(c04PairLimits) {
		return true, "skip-no-fresh-answers", ""
	}
	for _, l := range c04PairLimits {
		setLimit(l)
		mimetype.Detect(append([]byte{}, W[i].Data...))
		mimetype.DetectReader(bytes.NewReader(W[i].Data))
	}
	k := 0
	for _, l := range c04PairLimits {
		setLimit(l)
		got := chainStr(mimetype.Detect(append([]byte{}, W[j].Data...)))
		if got != want[k] {
			return false, "C04/earlier-detection-changes-answer/" + strings.SplitN(want[k], "(", 2)[0], fmt.Sprintf("after detecting witness %q, Detect(%q, limit %d) = %s; a fresh process answers %s", W[i].Name, W[j].Name, l, got, want[k])
		}
		k++
		m, err := mimetype.DetectReader(bytes.NewReader(W[j].Data))
		got = fmt.Sprint(chainStr(m), " ", err)
		if got != want[k] {
			return false, "C04/earlier-detection-changes-answer/reader/" + strings.SplitN(want[k], "(", 2)[0], fmt.Sprintf("after detecting witness %q, DetectReader(%q, limit %d) = %s; a fresh process answers %s", W[i].Name, W[j].Name, l, got, want[k])
		}
		k++
	}
	return true, "", ""
}

var c04ctx *core.Ctx

// seqHooks: single-goroutine scheduler hooks; only Pool.Get is a choice.
type seqHooks struct{ x *explore.Exec }

func (h *seqHooks) Point(string, any)   {}
func (h *seqHooks) Acquire(any, string) {}
func (h *seqHooks) Release(any, string) {}
func (h *seqHooks) PoolGet(obj any, n int) int {
	if n == 0 {
		return -1
	}
	if h.x == nil {
		return n - 1
	}
	// alternative 0: most recently released; 1..n-1: older ones; n: fresh
	c := h.x.Deviate(n + 1)
	if c == n {
		return -1
	}
	return n - 1 - c
}

type c04Op struct {
	name  string
	data  []byte
	limit uint32
}

func c04Ops() []c04Op {
	deep := func(n int) []byte { // parse aborted with a path stack of depth n
		return []byte(strings.Repeat(`{"k":`, n) + "x")
	}
	big := append(append([]byte(`{"type":"x","pad":"`), bytes.Repeat([]byte("p"), 2<<20)...), []byte(`"}`)...)
	line5k := strings.Repeat("x", 5000)
	ops := []c04Op{
		{"json-complete", []byte(`{"a":[1,2,{"b":null}],"c":"d"}`), 0},
		{"geojson-hit", []byte(`{"type":"Feature","geometry":null}`), 0},
		{"har-hit", []byte(`{"log":{"version":"1.2","entries":[]}}`), 0},
		{"gltf-hit", []byte(`{"asset":{"version":"2.0"}}`), 0},
		{"json-array", []byte(`[1,2,3]`), 0},
		// deciding member behind an earlier sibling that opens and closes a level
		{"geojson-after-sibling", []byte(`{"bbox":[0,0,1,1],"id":{"a":1},"type":"Feature"}`), 0},
		{"gltf-after-sibling", []byte(`{"asset":{"generator":"g","extras":[1],"version":"2.0"}}`), 0},
		{"har-after-sibling", []byte(`{"log":{"pages":[{"id":1}],"version":"1.2"}}`), 0},
		{"abort-array-depth129-short-file", []byte(strings.Repeat("[", 129)), 0},
		{"abort-depth200-cut", []byte(strings.Repeat(`{"k":`, 200) + "1" + strings.Repeat("}", 200)), 700},
		{"abort-depth1", deep(1), 0},
		{"abort-depth5", deep(5), 0},
		{"abort-depth127", deep(127), 0},
		{"abort-depth128", deep(128), 0},
		{"abort-depth129", deep(129), 0},
		{"abort-depth200", deep(200), 0},
		{"abort-in-key", []byte(`{"a":1,"unterminated`), 0},
		{"abort-in-escape", []byte(`["\u12`), 0},
		{"abort-beyond-cap", []byte(strings.Repeat("[", 4100)), 0},
		{"abort-array-depth300", []byte(strings.Repeat("[", 300) + "x"), 0},
		{"json-2MiB", big, 0},
		{"json-scalar", []byte(`"just a string"`), 0},
		{"json-truncated", []byte(`{"type":"Feature","geometry":{"type":"Point","coordinates":[1,`), 40},
		{"ndjson", []byte("{\"a\":1}\n{\"b\":2}\n"), 0},
		{"csv-rect", []byte("a,b,c\n1,2,3\n4,5,6\n"), 0},
		{"csv-ragged", []byte("a,b,c\n1,2\n4,5,6\nmore,lines,here\nand,more,lines\n"), 0},
		{"csv-5k-line", []byte("a,b\n" + line5k + "," + line5k + "\nc,d\n"), 0},
		{"csv-quote-error", []byte("a,b\n\"x\"y,z\nc,d\n"), 0},
		{"tsv", []byte("a\tb\n1\t2\n"), 0},
		{"csv-and-tsv-abort", []byte("a,b\n1\nx\ty\nz\nq,r\ns,t\n"), 0},
		{"blank-line-scalars", []byte("\n1\n2\n"), 0},
		{"scalars-blank-middle", []byte("1\n \n2\n"), 0},
		{"plain-words", []byte("hello world"), 0},
		{"html-meta", []byte(`<html><head><META CHARSET="ISO-8859-2"></head>`), 0},
		{"xml", []byte(`<?xml version="1.0" encoding="KOI8-R"?><a/>`), 0},
		{"binary", []byte("\x00\x01\x02binary\xff"), 0},
		{"empty", nil, 0},
		{"text-latin", []byte("caf\xe9"), 0},
		{"zip", []byte("PK\x03\x04" + strings.Repeat("\x00", 40)), 0},
	}
	return ops
}

// poolKey is the abstract state of the pools.
func poolKey() string {
	var parts []string
	for pi, p := range vsync.AllPools() {
		var objs []string
		for _, o := range p.Idle() {
			v := reflect.Indirect(reflect.ValueOf(o))
			t := v.Type().Name()
			switch {
			case t == "parserState":
				f := func(n string) reflect.Value { return v.FieldByName(n) }
				k := "P"
				if x := f("ib"); x.IsValid() && x.Int() != 0 {
					k += "i"
				}
				if x := f("firstToken"); x.IsValid() {
					k += fmt.Sprintf("t%d", x.Int())
				}
				if x := f("querySatisfied"); x.IsValid() && x.Bool() {
					k += "q"
				}
				if x := f("complete"); x.IsValid() && x.Bool() {
					k += "c"
				}
				if x := f("currPath"); x.IsValid() {
					if x.Len() > 0 {
						k += "l"
					}
					switch cp := x.Cap(); {
					case cp == 0:
						k += "C0"
					case cp <= 128:
						k += "C1"
					default:
						k += "C2"
					}
				}
				// any field this key does not know is included verbatim when scalar
				for i := 0; i < v.NumField(); i++ {
					n := v.Type().Field(i).Name
					switch n {
					case "ib", "firstToken", "querySatisfied", "complete", "currPath", "maxRecursion":
						continue
					}
					fv := v.Field(i)
					switch fv.Kind() {
					case reflect.Bool:
						k += fmt.Sprintf("|%s=%v", n, fv.Bool())
					case reflect.Int, reflect.Int64, reflect.Int32:
						k += fmt.Sprintf("|%s=%d", n, fv.Int())
					case reflect.Slice:
						k += fmt.Sprintf("|%s:len%d", n, fv.Len())
					}
				}
				objs = append(objs, k)
			case t == "Reader":
				k := "R"
				if m := reflect.ValueOf(o).MethodByName("Buffered"); m.IsValid() {
					if m.Call(nil)[0].Int() > 0 {
						k += "b"
					}
				}
				if e := v.FieldByName("err"); e.IsValid() && !e.IsNil() {
					k += "e"
				}
				objs = append(objs, k)
			default:
				objs = append(objs, "?"+t)
			}
		}
		sort.Strings(objs)
		if len(objs) > 4 {
			objs = objs[:4]
		}
		parts = append(parts, fmt.Sprintf("%d[%s]", pi, strings.Join(objs, ",")))
	}
	return strings.Join(parts, " ")
}

var c04Pristine = map[string]string{} // probe key -> answer in the pristine state

func resultKey(m *mimetype.MIME) string { return chainStr(m) }

var c04OpsCache []c04Op

func c04OpsGet() []c04Op {
	if c04OpsCache == nil {
		c04OpsCache = c04Ops()
	}
	return c04OpsCache
}

type c04Probe struct {
	op    int
	limit uint32
}

// c04Exec replays a history (op indices) on emptied pools, then runs one probe;
// every Pool.Get along the way is a choice of x. Returns the probe's answer.
func c04Exec(x *explore.Exec, hist []int, pr c04Probe) string {
	ops := c04OpsGet()
	h := &seqHooks{x: x}
	sched.Active = h
	defer func() { sched.Active = nil }()
	vsync.ResetPools()
	for _, oi := range hist {
		detect(ops[oi].data, ops[oi].limit)
	}
	return resultKey(detect(ops[pr.op].data, pr.limit))
}

func c04PristineAnswer(pr c04Probe) string {
	k := fmt.Sprintf("%d/%d", pr.op, pr.limit)
	if a, ok := c04Pristine[k]; ok {
		return a
	}
	a := c04Exec(nil, nil, pr)
	c04Pristine[k] = a
	return a
}

// c04Eval: Ints = [probeOp, nHist, hist..., choices...]; Limit = probe limit
func c04Eval(cs *core.Case) (bool, string, string) {
	nh := cs.Ints[1]
	hist := cs.Ints[2 : 2+nh]
	choices := cs.Ints[2+nh:]
	pr := c04Probe{cs.Ints[0], cs.Limit}
	want := c04PristineAnswer(pr)
	var got string
	explore.Replay(choices, func(x *explore.Exec) bool {
		got = c04Exec(x, hist, pr)
		return true
	})
	if got != want {
		ops := c04OpsGet()
		var hn []string
		for _, h := range hist {
			hn = append(hn, ops[h].name)
		}
		return false, "C04/history-changes-answer/probe-" + ops[pr.op].name,
			fmt.Sprintf("after the detections [%s] (pool answers %v) Detect(%s, limit %d) = %s; in the pristine state it is %s", strings.Join(hn, ", "), choices, ops[pr.op].name, pr.limit, got, want)
	}
	return true, "", ""
}

// c04BeyondEval: bytes beyond the limit must not matter; buffer untouched.
// Ints[0] = filler byte
func c04BeyondEval(cs *core.Case) (bool, string, string) {
	L := int(cs.Limit)
	if L <= 0 || L >= len(cs.In) {
		return true, "", ""
	}
	base := resultKey(detect(cs.In, cs.Limit))
	buf := make([]byte, len(cs.In), len(cs.In)+64)
	copy(buf, cs.In)
	for i := L; i < len(buf); i++ {
		buf[i] = byte(cs.Ints[0])
	}
	spare := buf[len(buf) : len(buf)+64]
	for i := range spare {
		spare[i] = 0x5A
	}
	snapshot := append([]byte{}, buf...)
	got := resultKey(detectRaw(buf, cs.Limit))
	if got != base {
		return false, "C04/bytes-beyond-limit-change-answer", fmt.Sprintf("input %s limit %d: %s; with the bytes beyond the limit replaced by 0x%02X: %s", core.Quote(cs.In), L, base, cs.Ints[0], got)
	}
	if !bytes.Equal(buf, snapshot) {
		return false, "C04/caller-buffer-modified", fmt.Sprintf("Detect modified the caller's buffer for input %s limit %d", core.Quote(cs.In), L)
	}
	for _, b := range spare {
		if b != 0x5A {
			return false, "C04/caller-spare-capacity-modified", "Detect wrote into the spare capacity of the caller's slice"
		}
	}
	return true, "", ""
}

// c04BufEval: the caller's buffer is never modified (whole input, all entry points via Detect).
func c04BufEval(cs *core.Case) (bool, string, string) {
	buf := make([]byte, len(cs.In), len(cs.In)+64)
	copy(buf, cs.In)
	spare := buf[len(buf) : len(buf)+64]
	for i := range spare {
		spare[i] = 0x5A
	}
	a := resultKey(detectRaw(buf, cs.Limit))
	b := resultKey(detectRaw(buf, cs.Limit))
	if a != b {
		return false, "C04/repeat-differs", fmt.Sprintf("two consecutive detections of %s differ: %s vs %s", core.Quote(cs.In), a, b)
	}
	if !bytes.Equal(buf, cs.In) {
		return false, "C04/caller-buffer-modified", fmt.Sprintf("Detect modified the caller's buffer for input %s limit %d", core.Quote(cs.In), cs.Limit)
	}
	for _, x := range spare {
		if x != 0x5A {
			return false, "C04/caller-spare-capacity-modified", "Detect wrote into the spare capacity of the caller's slice"
		}
	}
	return true, "", ""
}

// c04ReuseEval (part R): the caller re-uses ONE buffer for successive inputs
// (a fixed-size read buffer). Ints = [i, j, N]: the first N bytes of witness i
// are loaded into the buffer and detected, then the first N bytes of witness j;
// the second answer must be what a fresh slice with the same bytes gets.
var c04ReuseBuf = make([]byte, 4096)

func c04ReuseEval(cs *core.Case) (bool, string, string) {
	W := corpus(c04ctx)
	i, j, n := cs.Ints[0], cs.Ints[1], cs.Ints[2]
	if len(W[i].Data) < n || len(W[j].Data) < n {
		return true, "skip", ""
	}
	setLimit(0)
	want := chainStr(mimetype.Detect(append([]byte{}, W[j].Data[:n]...)))
	buf := c04ReuseBuf[:n:n]
	copy(buf, W[i].Data[:n])
	mimetype.Detect(buf)
	copy(buf, W[j].Data[:n])
	got := chainStr(mimetype.Detect(buf))
	if got != want {
		return false, "C04/reused-buffer-changes-answer", fmt.Sprintf("a %d-byte buffer first held the head of %q and was detected, then the head of %q: Detect reports %s; the same bytes in a fresh slice give %s", n, W[i].Name, W[j].Name, got, want)
	}
	again := chainStr(mimetype.Detect(buf))
	if again != got {
		return false, "C04/repeat-differs", fmt.Sprintf("repeating the detection of the head of %q in the same buffer: %s then %s", W[j].Name, got, again)
	}
	return true, "", ""
}

// c04ShortEval (part S): Ints = [j, k]. The first k bytes of witness j are
// detected twice: once after an unrelated long text, once after the whole
// witness j (whose bytes continue the short input). Same input, two histories:
// the answers must agree (a scratch area that keeps the tail of the previous
// input shows exactly here).
func c04ShortEval(cs *core.Case) (bool, string, string) {
	W := corpus(c04ctx)
	j, k := cs.Ints[0], cs.Ints[1]
	if len(W[j].Data) <= k {
		return true, "skip", ""
	}
	short := W[j].Data[:k]
	neutral := []byte("xxxxxxxxxxxxxxxxxxxxxxxxxxxxxxxxxxxxxxxxxxxxxxxxxxxxxxxxxxxxxxxx plain words only\n")
	var ans [2]string
	for h := 0; h < 2; h++ {
		setLimit(0)
		if h == 0 {
			mimetype.Detect(append([]byte{}, neutral...))
		} else {
			mimetype.Detect(append([]byte{}, W[j].Data...))
		}
		ans[h] = chainStr(mimetype.Detect(append([]byte{}, short...)))
	}
	if ans[0] != ans[1] {
		return false, "C04/earlier-detection-changes-answer/short-input", fmt.Sprintf("the %d-byte input %s is %s after an unrelated text was detected, but %s after %q (which starts with the same bytes) was detected", k, core.Quote(short), ans[0], ans[1], W[j].Name)
	}
	return true, "", ""
}

func c04Setup(c *core.Ctx) {
	c04ctx = c
	c.Register("c04short", c04ShortEval)
	c.Register("c04reuse", c04ReuseEval)
	c.Register("c04pair", c04PairEval)
	c.Register("c04", c04Eval)
	c.Register("c04beyond", c04BeyondEval)
	c.Register("c04buf", c04BufEval)
}

func c04Run(c *core.Ctx) {
	ops := c04OpsGet()
	c.Info("operations", fmt.Sprint(len(ops)))
	maxDepth, bound := 3, 1
	if c.Thorough() {
		maxDepth, bound = 4, 2
	}
	c.Info("history_depth", fmt.Sprint(maxDepth))
	c.Info("pool_answer_deviation_bound", fmt.Sprint(bound))
	// probes: every op at 4 limits
	var probes []c04Probe
	for i, o := range ops {
		if len(o.data) > 1<<20 {
			probes = append(probes, c04Probe{i, 0})
			continue
		}
		seen := map[uint32]bool{}
		for _, l := range []uint32{o.limit, 0, 8, uint32(len(o.data)), 3072} {
			if !seen[l] {
				seen[l] = true
				probes = append(probes, c04Probe{i, l})
			}
		}
	}
	c.Info("probes", fmt.Sprint(len(probes)))
	for _, pr := range probes {
		c04PristineAnswer(pr)
	}
	// BFS over histories (every worker runs the BFS frontier bookkeeping; the
	// probing of a state is sharded)
	type st struct{ hist []int }
	keyOf := func(hist []int) string {
		sched.Active = &seqHooks{}
		vsync.ResetPools()
		for _, oi := range hist {
			detect(ops[oi].data, ops[oi].limit)
		}
		k := poolKey()
		sched.Active = nil
		return k
	}
	const repsPerKey = 3 // distinct shortest histories kept per abstract pool state
	seen := map[string]int{}
	frontier := []st{{nil}}
	seen[keyOf(nil)] = 1
	cs := &core.Case{Kind: "c04"}
	var states, newAtLast uint64
	for depth := 0; depth <= maxDepth && len(frontier) > 0; depth++ {
		var next []st
		newAtLast = 0
		for _, s := range frontier {
			states++
			// probe this state
			if c.Next() && !c.Expired() {
				c.R.States++
				for _, pr := range probes {
					if len(ops[pr.op].data) > 1<<20 && depth > 1 {
						continue
					}
					want := c04PristineAnswer(pr)
					stx := explore.Run(bound, 20000, func(x *explore.Exec) bool {
						got := c04Exec(x, s.hist, pr)
						c.R.Traces++
						if got != want {
							c.R.Traces--
							cs.Limit = pr.limit
							cs.In = nil
							cs.Ints = append(append([]int{pr.op, len(s.hist)}, s.hist...), x.Choices...)
							c.Check(cs)
							return false
						}
						return true
					})
					c.R.Evals += stx.Executions
					c.R.Transitions += stx.Executions + stx.Points
					if stx.Truncated {
						c.Cap("pool-answer-schedules-cap-20000")
					}
					if len(s.hist) > 0 {
						c.R.Nontrivial++
					}
				}
				var hn []string
				for _, h := range s.hist {
					hn = append(hn, ops[h].name)
				}
				c.Sample(fmt.Sprintf("history-depth-%d", depth), map[string]any{"history": hn, "pool_state": keyOf(s.hist)})
			}
			if depth == maxDepth {
				continue
			}
			for oi := range ops {
				if len(ops[oi].data) > 1<<20 && depth >= 1 {
					continue
				}
				h := append(append([]int{}, s.hist...), oi)
				k := keyOf(h)
				if seen[k] == 0 {
					newAtLast++
				}
				if seen[k] >= repsPerKey {
					continue // this abstract pool state already has its representatives
				}
				seen[k]++
				next = append(next, st{h})
			}
		}
		frontier = next
	}
	c.Info("distinct_pool_states", fmt.Sprint(len(seen)))
	c.Info("new_pool_states_at_last_level", fmt.Sprint(newAtLast))
	if newAtLast > 0 {
		c.Note("bfs-depth-bound-reached-before-fixpoint", 1)
	}

	// Part H2: every ordered pair of witnesses: detecting i must not change what j
	// answers, where the reference answers come from a fresh process per witness
	{
		W := corpus(c)
		pc := &core.Case{Kind: "c04pair", Ints: []int{0, 0}}
		var pairs uint64
		for j := range W {
			if len(W[j].Data) > 1<<16 || !c.Next() || c.Expired() {
				continue
			}
			for i := range W {
				if len(W[i].Data) > 1<<16 {
					continue
				}
				pc.Ints[0], pc.Ints[1] = i, j
				c.R.Evals++
				c.R.Transitions++
				c.R.Nontrivial++
				pairs++
				c.Check(pc)
			}
		}
		c.Note("witness-pairs-against-fresh-process-answers", pairs)
	}
	// Part B
	bc := &core.Case{Kind: "c04beyond", Ints: []int{0}}
	buf := &core.Case{Kind: "c04buf"}
	for _, o := range ops {
		if len(o.data) > 1<<16 || !c.Next() || c.Expired() {
			continue
		}
		for L := 1; L < len(o.data); L++ {
			if len(o.data) > 700 && L%37 != 0 && L > 64 {
				continue
			}
			for _, f := range []byte{0x00, '}', '"', 0xFF, '\n'} {
				bc.In, bc.Limit, bc.Ints[0] = o.data, uint32(L), int(f)
				c.R.Evals++
				c.R.Transitions++
				c.R.Nontrivial++
				c.Check(bc)
			}
		}
		for _, l := range []uint32{0, 8, 3072} {
			buf.In, buf.Limit = o.data, l
			c.R.Evals++
			c.R.Transitions++
			c.Check(buf)
		}
		c.SampleCase("beyond-limit", bc)
	}
	// Part S: short heads of every witness after the whole witness
	{
		W := corpus(c)
		sc := &core.Case{Kind: "c04short", Ints: []int{0, 0}}
		var n uint64
		for j := range W {
			if len(W[j].Data) > 1<<16 || !c.Next() || c.Expired() {
				continue
			}
			for k := 1; k <= 20 && k < len(W[j].Data); k++ {
				sc.Ints[0], sc.Ints[1] = j, k
				c.R.Evals++
				c.R.Transitions += 4
				n++
				c.Check(sc)
			}
		}
		c.Note("S.short-heads", n)
		c.SampleCase("S:short-head-after-whole-witness", sc)
	}
	// Part R: one caller buffer re-used for the heads of all ordered witness pairs
	{
		W := corpus(c)
		rc := &core.Case{Kind: "c04reuse", Ints: []int{0, 0, 0}}
		var pairs uint64
		for j := range W {
			if !c.Next() || c.Expired() {
				continue
			}
			for i := range W {
				for _, n := range []int{8, 24, 64} {
					if len(W[i].Data) < n || len(W[j].Data) < n {
						continue
					}
					rc.Ints[0], rc.Ints[1], rc.Ints[2] = i, j, n
					c.R.Evals++
					c.R.Transitions += 3
					pairs++
					c.Check(rc)
				}
			}
		}
		c.Note("R.reused-buffer-pairs", pairs)
		c.SampleCase("R:reused-caller-buffer", rc)
	}
	for _, w := range corpus(c) {
		if len(w.Data) > 4096 || !c.Next() || c.Expired() {
			continue
		}
		for _, l := range []uint32{0, 8, 3072} {
			buf.In, buf.Limit = w.Data, l
			c.R.Evals++
			c.R.Transitions++
			c.Check(buf)
		}
		for _, L := range []int{1, 2, 4, 8, 16, 30, 64, len(w.Data) / 2, len(w.Data) - 1} {
			for _, f := range []byte{0x00, '}', 0xFF, '\n'} {
				bc.In, bc.Limit, bc.Ints[0] = w.Data, uint32(L), int(f)
				c.R.Evals++
				c.R.Transitions++
				c.Check(bc)
			}
		}
		// every limit inside the witness (a field that straddles the limit is
		// visible at a handful of positions only), two fillers
		for L := 1; L < len(w.Data); L++ {
			for _, f := range []byte{0x00, 0xFF} {
				bc.In, bc.Limit, bc.Ints[0] = w.Data, uint32(L), int(f)
				c.R.Evals++
				c.R.Transitions++
				c.Check(bc)
			}
		}
	}
}
