package checks

import (
	"bytes"
	"fmt"
	"strings"

	"github.com/gabriel-vasile/mimetype"
	"github.com/gabriel-vasile/mimetype/internal/verifx/core"
)

// C15 — equality helpers ignore case, whitespace and parameters and know aliases.
//
//	(1) every node m x every registered name/alias n x decorations d:
//	    m.Is(d(n)) == (n in {type(m)} u aliases(m));
//	(2) EqualsAny(d1(a), d2(b)) == (a == b) over names incl. near misses, with the
//	    match at every position of the variadic list;
//	(3) every detection result d of the corpus and of hostile-charset documents:
//	    d.Is(d.String()), EqualsAny(d.String(), d.String()), Lookup(bare) finds a
//	    format that Is d.String();
//	(4) every registered name and alias resolves through Lookup to a format that
//	    Is that name.
//
// The reference normaliser is written from the statement: strip parameters at
// the first ';', trim ASCII whitespace, lower-case.
func init() { Registry["C15"] = &Check{Setup: c15Setup, Run: c15Run} }

func normalise(s string) string {
	if i := strings.IndexByte(s, ';'); i >= 0 {
		s = s[:i]
	}
	s = strings.Trim(s, " \t\r\n")
	b := []byte(s)
	for i, ch := range b {
		if ch >= 'A' && ch <= 'Z' {
			b[i] = ch + 0x20
		}
	}
	return string(b)
}

var c15Cases = []func(string) string{
	func(s string) string { return s },
	strings.ToUpper,
	func(s string) string { // Title/Sub
		b := []byte(s)
		up := true
		for i, ch := range b {
			if up && ch >= 'a' && ch <= 'z' {
				b[i] = ch - 0x20
			}
			up = ch == '/' || ch == '-' || ch == '.' || ch == '+'
		}
		return string(b)
	},
	func(s string) string { // aLtErNaTe
		b := []byte(s)
		for i, ch := range b {
			if i%2 == 1 && ch >= 'a' && ch <= 'z' {
				b[i] = ch - 0x20
			}
		}
		return string(b)
	},
}
// whitespace decorations: each of SP, HT, LF, CRLF alone (a normaliser that
// special-cases a subset of them is thereby visible) and one mixed run
var c15WS = []string{"", " ", "\t", "\n", "\r\n", "\n \t"}
var c15Params = []string{"", ";charset=utf-8", `; charset="utf-8"`, `;a=b;c="d e"`, `; q=0.9 ; v=1`, `; title*=utf-8''%e2%82%ac`}

func decorate(n string, ci, li, ti, pi int) string {
	return c15WS[li] + c15Cases[ci](n) + c15Params[pi] + c15WS[ti]
}

var c15Nodes []mimetype.VerifNode

// kind "c15is": Ints = [node index, ci, li, ti, pi], Strs = [name]
func c15IsEval(cs *core.Case) (bool, string, string) {
	if c15Nodes == nil {
		c15Nodes = c15NodeList()
	}
	nd := c15Nodes[cs.Ints[0]]
	s := decorate(cs.Strs[0], cs.Ints[1], cs.Ints[2], cs.Ints[3], cs.Ints[4])
	want := false
	nn := normalise(s)
	if nn == normalise(nd.Name) {
		want = true // the comparison is case insensitive on both sides
	}
	for _, a := range nd.Aliases {
		if a == nn {
			want = true
		}
	}
	got := nd.Ptr.Is(s)
	if ok, why := c15TableIntact(); !ok {
		return false, "C15/caller-alias-table-modified", fmt.Sprintf("after %s(%s).Is(%q): %s", nd.Name, nd.Ext, s, why)
	}
	if got != want {
		return false, fmt.Sprintf("C15/Is/%v-expected-%v/case%d-ws%d%d-param%d", got, want, cs.Ints[1], cs.Ints[2], cs.Ints[3], cs.Ints[4]),
			fmt.Sprintf("format %s(%s) aliases %v: Is(%q) = %v, expected %v (normalised argument %q)", nd.Name, nd.Ext, nd.Aliases, s, got, want, nn)
	}
	return true, "", ""
}

// kind "c15eq": Strs = [a, b], Ints = [decoration a (packed), decoration b, position, listlen]
func c15EqEval(cs *core.Case) (bool, string, string) {
	unpack := func(p int) (int, int, int, int) { return p & 3, (p >> 2) & 7, (p >> 5) & 7, (p >> 8) & 7 }
	c1, l1, t1, p1 := unpack(cs.Ints[0])
	c2, l2, t2, p2 := unpack(cs.Ints[1])
	a := decorate(cs.Strs[0], c1, l1, t1, p1)
	b := decorate(cs.Strs[1], c2, l2, t2, p2)
	list := make([]string, cs.Ints[3])
	for i := range list {
		list[i] = "x-never/matches" + fmt.Sprint(i)
	}
	list[cs.Ints[2]] = b
	want := normalise(a) == normalise(b)
	got := mimetype.EqualsAny(a, list...)
	if got != want {
		return false, fmt.Sprintf("C15/EqualsAny/%v-expected-%v", got, want), fmt.Sprintf("EqualsAny(%q, %q) = %v, expected %v", a, list, got, want)
	}
	return true, "", ""
}

// kind "c15res": a detection result must satisfy the reflexive laws.
func c15ResEval(cs *core.Case) (bool, string, string) {
	c15Register()
	d := detect(cs.In, cs.Limit)
	s := d.String()
	if !d.Is(s) {
		return false, "C15/result/not-Is-own-String", fmt.Sprintf("input %s: result %q does not satisfy Is(its own String())", core.Quote(cs.In), s)
	}
	if !mimetype.EqualsAny(s, s) {
		return false, "C15/result/not-EqualsAny-itself", fmt.Sprintf("input %s: EqualsAny(%q, %q) is false", core.Quote(cs.In), s, s)
	}
	l := mimetype.Lookup(bare(s))
	if l == nil {
		return false, "C15/result/Lookup-nil", fmt.Sprintf("input %s: Lookup(%q) is nil", core.Quote(cs.In), bare(s))
	}
	if !l.Is(s) {
		return false, "C15/result/Lookup-not-Is", fmt.Sprintf("input %s: Lookup(%q) = %s does not satisfy Is(%q)", core.Quote(cs.In), bare(s), l.String(), s)
	}
	// the result Is its own bare type, however decorated, and EqualsAny agrees
	if len(cs.Strs) > 0 && cs.Strs[0] != "" {
		want := cs.Strs[0]
		if bare(s) == want {
			for _, dec := range []string{want, strings.ToUpper(want), " " + want + "\t", want + "\n", "\r\n" + want, want + "; charset=utf-8"} {
				if !d.Is(dec) {
					return false, "C15/result/not-Is-own-type", fmt.Sprintf("input %s: result %q does not satisfy Is(%q)", core.Quote(cs.In), s, dec)
				}
				if !mimetype.EqualsAny(s, "x/never", dec) {
					return false, "C15/result/not-EqualsAny-own-type", fmt.Sprintf("input %s: EqualsAny(%q, ..., %q) is false", core.Quote(cs.In), s, dec)
				}
			}
		}
	}
	for p := d.Parent(); p != nil; p = p.Parent() {
		if !p.Is(p.String()) {
			return false, "C15/result/ancestor-not-Is-own-String", p.String()
		}
	}
	// the result and each of its ancestors answer Is for every alias registered
	// for the format they stand for (and EqualsAny-style decorations of it)
	if c15Nodes == nil {
		c15Nodes = c15NodeList()
	}
	for x, lvl := d, 0; x != nil; x, lvl = x.Parent(), lvl+1 {
		for _, nd := range c15Nodes {
			if nd.Name != bare(x.String()) || nd.Ext != x.Extension() {
				continue
			}
			for _, a := range nd.Aliases {
				for _, dec := range []string{a, " " + strings.ToUpper(a) + "; q=1"} {
					if !x.Is(dec) {
						who := "result"
						if lvl > 0 {
							who = "ancestor"
						}
						return false, "C15/result/" + who + "-forgot-alias", fmt.Sprintf("input %s: %s %q (level %d of the chain %s) does not satisfy Is(%q), a registered alias of that format", core.Quote(cs.In), who, x.String(), lvl, chainStr(d), dec)
					}
				}
			}
			break
		}
	}
	return true, "", ""
}

// kind "c15lookup": Strs[0] = registered name or alias
func c15LookupEval(cs *core.Case) (bool, string, string) {
	c15Register()
	// exercise the helpers on every extension first (replay starts from a
	// fresh process): none of them may touch the caller's alias table
	for _, e := range c15Extensions {
		if f := mimetype.Lookup(e.name); f != nil {
			f.Is(e.name)
			f.Is("x/other")
			mimetype.EqualsAny(e.name, f.String())
		}
	}
	if ok, why := c15TableIntact(); !ok {
		return false, "C15/caller-alias-table-modified", why
	}
	n := cs.Strs[0]
	l := mimetype.Lookup(n)
	if l == nil {
		return false, "C15/Lookup/registered-name-not-found", fmt.Sprintf("Lookup(%q) is nil", n)
	}
	if !l.Is(n) {
		return false, "C15/Lookup/found-format-not-Is-name", fmt.Sprintf("Lookup(%q) = %s which does not satisfy Is(%q)", n, l.String(), n)
	}
	return true, "", ""
}

func c15Setup(c *core.Ctx) {
	c.Register("c15is", c15IsEval)
	c.Register("c15eq", c15EqEval)
	c.Register("c15res", c15ResEval)
	c.Register("c15lookup", c15LookupEval)
}

// c15Extensions are registered (with detectors that never match) before the
// matrices are built, so that names and aliases registered through Extend are
// part of every matrix. The oracle takes their aliases from this table, not from
// what the implementation stored.
var c15Extensions = []struct {
	parent, name, ext string
	aliases           []string
}{
	// registered the way IANA spells e.g. video/H264: with capitals in the name
	// alias lists are given out of lexical order (a caller's order is arbitrary;
	// a lookup that assumes sorted aliases must not lose any of them)
	{"", "x/C15-Root", ".c15a", []string{"x/c15-root-zeta", "x/c15-root-alpha", "x/c15-root-mid"}},
	{"text/plain", "X/c15-Text", ".c15b", []string{"x/c15-text-b", "x/c15-text-a"}},
	{"application/zip", "x/c15-zip", ".c15c", []string{"x/c15-zip-alias"}},
}

var c15Registered bool

func c15Register() {
	if c15Registered {
		return
	}
	c15Registered = true
	never := func([]byte, uint32) bool { return false }
	dets := map[string]func([]byte, uint32) bool{
		".c15a": func(b []byte, _ uint32) bool { return bytes.HasPrefix(b, []byte("c15root")) },
		".c15b": func(b []byte, _ uint32) bool { return bytes.HasPrefix(b, []byte("c15text")) },
	}
	// the alias arguments are adjacent sub-slices of ONE caller-owned array with
	// spare capacity (a registry table): whatever writes past the end of one
	// format's aliases lands in the next format's aliases
	c15AliasTable = c15AliasTable[:0]
	for _, e := range c15Extensions {
		c15AliasTable = append(c15AliasTable, e.aliases...)
	}
	c15AliasTable = append(c15AliasTable, "<spare-0>", "<spare-1>")
	c15AliasSnapshot = append([]string{}, c15AliasTable...)
	at := 0
	for _, e := range c15Extensions {
		arg := c15AliasTable[at : at+len(e.aliases)] // cap reaches to the end of the table
		at += len(e.aliases)
		det := dets[e.ext]
		if det == nil {
			det = never
		}
		if e.parent == "" {
			mimetype.Extend(det, e.name, e.ext, arg...)
		} else {
			mimetype.Lookup(e.parent).Extend(det, e.name, e.ext, arg...)
		}
	}
}

var c15AliasTable, c15AliasSnapshot []string

// c15TableIntact reports whether the caller-owned alias table still reads as
// it did when the extensions were registered.
func c15TableIntact() (bool, string) {
	for i := range c15AliasSnapshot {
		if c15AliasTable[i] != c15AliasSnapshot[i] {
			return false, fmt.Sprintf("slot %d of the caller's alias table read %q at registration and reads %q now", i, c15AliasSnapshot[i], c15AliasTable[i])
		}
	}
	return true, ""
}

func c15NodeList() []mimetype.VerifNode {
	c15Register()
	nodes := mimetype.VerifNodes()
	for i := range nodes {
		for _, e := range c15Extensions {
			if nodes[i].Ext == e.ext {
				// what was registered, not what was stored: name and aliases
				nodes[i].Name = e.name
				nodes[i].Aliases = e.aliases
			}
		}
	}
	return nodes
}

func c15Run(c *core.Ctx) {
	c15Nodes = c15NodeList()
	var names []string
	seen := map[string]bool{}
	for _, n := range c15Nodes {
		for _, x := range append([]string{n.Name}, n.Aliases...) {
			if !seen[x] {
				seen[x] = true
				names = append(names, x)
			}
		}
	}
	// cross-check with supported_mimes.md: every name there must be known
	c.Info("names_and_aliases", fmt.Sprint(len(names)))
	c.Info("nodes", fmt.Sprint(len(c15Nodes)))
	c.Info("decorations", fmt.Sprint(len(c15Cases)*len(c15WS)*len(c15WS)*len(c15Params)))

	is := &core.Case{Kind: "c15is", Ints: make([]int, 5), Strs: []string{""}}
	// (1)
	for mi, nd := range c15Nodes {
		if !c.Next() || c.Expired() {
			continue
		}
		own := map[string]bool{nd.Name: true}
		for _, a := range nd.Aliases {
			own[a] = true
		}
		for _, n := range names {
			is.Ints[0], is.Strs[0] = mi, n
			match := own[n]
			for ci := range c15Cases {
				for li := range c15WS {
					for ti := range c15WS {
						for pi := range c15Params {
							if !match && !c.Thorough() && false {
								// quick: non-matching pairs get 24 decorations (all cases x params, ws tied)
								if li != ti {
									continue
								}
								if li > 1 && ci != pi%4 {
									continue
								}
							}
							is.Ints[1], is.Ints[2], is.Ints[3], is.Ints[4] = ci, li, ti, pi
							c.R.States++
							c.R.Transitions++
							c.R.Evals++
							if match {
								c.R.Nontrivial++
							}
							c.Check(is)
						}
					}
				}
			}
		}
		c.SampleCase("Is-matrix", is)
	}
	// (2)
	eq := &core.Case{Kind: "c15eq", Ints: make([]int, 4), Strs: []string{"", ""}}
	np := []string{"text/plain", "text/plains", "text/plai", "text/html", "application/json", "application/geo+json", "application/x-zip", "application/zip",
		"image/png", "image/vnd.mozilla.apng", "audio/mpeg", "audio/mp3", "video/mp4", "application/octet-stream", "font/ttf", "text/x", "x/plain", "te/plain", "application/vnd.oasis.opendocument.text", "application/vnd.oasis.opendocument.text-template"}
	for i := 0; i < len(names) && len(np) < 60; i += 5 {
		np = append(np, names[i])
	}
	decos := []int{}
	for ci := 0; ci < 4; ci++ {
		for pi := 0; pi < 6; pi++ {
			decos = append(decos, ci|((pi%6)<<2)|(((pi+ci)%6)<<5)|(pi<<8))
		}
	}
	// equal names additionally get every (leading, trailing) whitespace pair
	// on both sides, with and without a parameter and in two letter cases
	wsDecos := append([]int{}, decos...)
	for ci := 0; ci < 2; ci++ {
		for pi := 0; pi < 2; pi++ {
			for li := range c15WS {
				for ti := range c15WS {
					wsDecos = append(wsDecos, ci|(li<<2)|(ti<<5)|(pi<<8))
				}
			}
		}
	}
	for ai, a := range np {
		if !c.Next() || c.Expired() {
			continue
		}
		for bi, b := range np {
			decos := decos
			if a == b {
				decos = wsDecos
			}
			for _, d1 := range decos {
				for _, d2 := range decos {
					if !c.Thorough() && a != b && (d1+d2)%2 != 0 {
						continue
					}
					pos := (ai + bi + d1 + d2) % 4
					eq.Strs[0], eq.Strs[1] = a, b
					eq.Ints[0], eq.Ints[1], eq.Ints[2], eq.Ints[3] = d1, d2, pos, 4
					c.R.States++
					c.R.Transitions++
					c.R.Evals++
					if a == b {
						c.R.Nontrivial++
					}
					c.Check(eq)
				}
			}
		}
		c.SampleCase("EqualsAny-matrix", eq)
	}
	// (3)
	res := &core.Case{Kind: "c15res"}
	// results that land on (or below) the registered extensions
	if c.Mine(3) {
		for _, in := range []string{"c15root", "c15root and more", "c15text", "c15text \xe9", "  c15text"} {
			res.In, res.Limit = []byte(in), 0
			c.R.States++
			c.R.Transitions++
			c.R.Evals++
			c.R.Nontrivial++
			c.Check(res)
		}
		c.SampleCase("result-laws-on-extensions", res)
	}
	for _, w := range corpus(c) {
		if !c.Next() || c.Expired() {
			continue
		}
		max := len(w.Data)
		if max > 300 {
			max = 300
		}
		for cut := 0; cut <= max; cut++ {
			res.In, res.Limit = w.Data[:cut], 0
			c.R.States++
			c.R.Transitions++
			c.R.Evals++
			c.Check(res)
		}
		c.SampleCase("result-laws", res)
	}
	res.Strs = []string{""}
	for _, ctxT := range c02Contexts {
		res.Strs[0] = "text/html"
		if strings.HasPrefix(ctxT, "<?xml") {
			res.Strs[0] = "text/xml"
		}
		// labels that smuggle separators / parameters / a second charset
		if c.Mine(3) {
			for _, l := range injectionLabels {
				i := strings.LastIndex(ctxT, "L")
				for i > 0 && !strings.ContainsAny(ctxT[i+1:i+2], "\"'>;") {
					i = strings.LastIndex(ctxT[:i], "L")
				}
				res.In, res.Limit = []byte(ctxT[:i]+l+ctxT[i+1:]), 0
				c.R.States++
				c.R.Transitions++
				c.R.Evals++
				c.R.Nontrivial++
				c.Check(res)
			}
		}
		for _, s1 := range sigma02 {
			if !c.Next() || c.Expired() {
				continue
			}
			for _, s2 := range sigma02 {
				for _, s3 := range [][]byte{nil, {'a'}, {'"'}, {0xC3, 0xA9}, {';'}, {' '}} {
					label := append(append(append([]byte{}, s1...), s2...), s3...)
					i := strings.LastIndex(ctxT, "L")
					for i > 0 && !strings.ContainsAny(ctxT[i+1:i+2], "\"'>;") {
						i = strings.LastIndex(ctxT[:i], "L")
					}
					doc := append(append([]byte(ctxT[:i]), label...), ctxT[i+1:]...)
					res.In, res.Limit = doc, 0
					c.R.States++
					c.R.Transitions++
					c.R.Evals++
					c.R.Nontrivial++
					c.Check(res)
				}
			}
		}
		c.SampleCase("result-laws-hostile-charset", res)
	}
	// (4)
	lk := &core.Case{Kind: "c15lookup", Strs: []string{""}}
	if c.Mine(0) {
		for _, n := range names {
			lk.Strs[0] = n
			c.R.States++
			c.R.Transitions++
			c.R.Evals++
			c.R.Nontrivial++
			c.Check(lk)
		}
		c.SampleCase("lookup", lk)
	}
}
