package checks

import (
	stdjson "encoding/json"
	"fmt"
	"strings"

	"github.com/gabriel-vasile/mimetype/internal/verifx/core"
)

// C08 — well-formed JSON is recognised, whole or truncated.
//
// Documents come from the pushdown generator (structure axis), from a scalar
// menu substituted into fixed structures (lexical axis), from whitespace
// layouts (layout axis) and from deep nestings (depth axis). Every document is
// executed at every cut after its opening bracket and in the whole-file modes.
func init() { Registry["C08"] = &Check{Setup: c08Setup, Run: c08Run} }

func c08Eval(cs *core.Case) (bool, string, string) {
	m := detect(cs.In, cs.Limit)
	if jsonFamily(m) {
		return true, "", ""
	}
	if higherPriority(m, "application/json", ".json") {
		return true, "exception", ""
	}
	mode := "whole"
	if cs.Limit != 0 && uint64(len(cs.In)) >= uint64(cs.Limit) {
		mode = "cut"
	}
	h := header(cs.In, cs.Limit)
	where := ""
	if mode == "cut" && len(h) > 0 {
		where = fmt.Sprintf("/last-byte-%q", h[len(h)-1])
	}
	return false, "C08/valid-json-not-recognised/" + mode + where,
		fmt.Sprintf("valid RFC 8259 document %s examined with limit %d (header %s, mode %s) is reported as %s", core.Quote(cs.In), cs.Limit, core.Quote(h), mode, chainStr(m))
}

// c08SvgEval: the exception itself — a JSON document containing <svg is SVG.
func c08SvgEval(cs *core.Case) (bool, string, string) {
	m := detect(cs.In, cs.Limit)
	if jsonFamily(m) || higherPriority(m, "application/json", ".json") {
		return true, "", ""
	}
	return false, "C08/svg-exception", fmt.Sprintf("document %s: neither JSON nor a higher-priority format: %s", core.Quote(cs.In), chainStr(m))
}

func c08Setup(c *core.Ctx) {
	c.Register("c08", c08Eval)
	c.Register("c08svg", c08SvgEval)
}

var c08Strings = []string{
	`""`, `","`, `"}"`, `"]"`, `"["`, `"{"`, `":"`, `"\""`, `"\\"`, `"\/"`, `"\b\f\n\r\t"`,
	`"\u00e9"`, `"\ud834\udd1e"`, `"\u00E9x"`, `"é"`, `"€"`, `"𝄞"`, `" "`, `"tru"`, `"nul"`, `"1"`, `"-"`,
	"\"a\x7fb\"", `"#!"`, `",]"`, `"},"`, `"\\\""`, `"a,b:c"`, `"//"`, `"\\u"`,
}
var c08Numbers = []string{`0`, `-0`, `7`, `10`, `1.5`, `-0.25`, `1e5`, `1E+2`, `2e-3`, `0.0e0`, `123456789012345678901234567890`}
var c08Literals = []string{`true`, `false`, `null`}

func c08Run(c *core.Ctx) {
	cs := &core.Case{Kind: "c08"}
	var ndocs, ncuts uint64
	seenValidSelfcheck := 0

	// runDoc executes one document at every cut after the opening bracket and
	// in the whole modes. stride>1 samples cuts deterministically for huge docs
	// (reported as a cap).
	runDoc := func(d []byte, class string, stride int) {
		if seenValidSelfcheck < 200000 && len(d) < 4096 {
			seenValidSelfcheck++
			if !stdjson.Valid(d) {
				panic("generator produced a document encoding/json rejects: " + string(d))
			}
		}
		ndocs++
		c.R.States++
		o := 0
		for o < len(d) && d[o] != '[' && d[o] != '{' {
			o++
		}
		cs.In = d
		c.SampleCase(class, cs)
		for _, l := range []uint32{0, uint32(len(d) + 1), 1<<32 - 1} {
			cs.Limit = l
			c.R.Transitions++
			c.R.Evals++
			c.Check(cs)
		}
		for cut := o + 1; cut <= len(d); cut++ {
			if stride > 1 && cut%stride != 0 && cut > o+64 && cut < len(d)-64 {
				continue
			}
			cs.Limit = uint32(cut)
			c.R.Transitions++
			c.R.Evals++
			c.R.Nontrivial++ // a (document, cut) pair in truncated mode
			ncuts++
			c.Check(cs)
		}
	}

	// --- structure axis
	T := 9
	if c.Thorough() {
		T = 11
	}
	c.Info("structure.max_tokens", fmt.Sprint(T))
	g := &tokGen{maxTok: T, maxDepth: 4, scalars: []string{"1", `"a"`, "true"}, keys: []string{`"k"`, `"type"`}}
	g.run(4, c.Next, func(toks []string) {
		if c.Expired() {
			return
		}
		runDoc(joinToks(toks, ""), "structure", 1)
	})
	c.R.States += g.states
	c.R.Transitions += g.trans

	// --- lexical axis: scalar menu substituted into fixed structures
	var scalars []string
	scalars = append(scalars, c08Strings...)
	scalars = append(scalars, c08Numbers...)
	scalars = append(scalars, c08Literals...)
	structs := []string{`[S]`, `[S,S]`, `{"k":S}`, `[[S]]`, `{"k":[S]}`, `[S,{"k":S}]`, `{"k":S,"j":S}`, `[1,S,2]`}
	keyStructs := []string{`{K:1}`, `{K:{K:[]}}`, `[{K:"v"},1]`}
	layouts := []func(string) string{
		func(s string) string { return s },
		func(s string) string { return " " + s + " " },
		func(s string) string { return "\n" + spaceOut(s, "\n") + "\n" },
		func(s string) string { return spaceOut(s, " ") },
		func(s string) string { return spaceOut(s, "\t") },
		func(s string) string { return "\r\n" + spaceOut(s, "\r\n") },
		func(s string) string { return spaceOut(s, "  ") + "\n\n" },
	}
	for _, st := range structs {
		for _, sc := range scalars {
			for li, lay := range layouts {
				_ = li
				if !c.Next() || c.Expired() {
					continue
				}
				runDoc([]byte(lay(strings.ReplaceAll(st, "S", sc))), "lexical", 1)
			}
		}
	}
	for _, st := range keyStructs {
		for _, k := range c08Strings {
			for _, lay := range layouts {
				if !c.Next() || c.Expired() {
					continue
				}
				runDoc([]byte(lay(strings.ReplaceAll(st, "K", k))), "lexical-keys", 1)
			}
		}
	}
	// pairs of scalars (interaction of two tokens, e.g. a string ending in a
	// backslash escape followed by a number)
	if c.Thorough() {
		for _, a := range scalars {
			for _, b := range scalars {
				if !c.Next() || c.Expired() {
					continue
				}
				runDoc([]byte(`[`+a+`,`+b+`]`), "lexical-pairs", 1)
				runDoc([]byte(`{"k":`+a+`,"j":`+b+`}`), "lexical-pairs", 1)
			}
		}
	}

	// --- layout axis: every whitespace choice in every gap of small documents
	ws := []string{"", " ", "\n", "\t", "\r\n", "\r"}
	small := [][]string{
		{"[", "]"}, {"{", "}"}, {"[", "1", "]"}, {"[", `"a"`, ",", "true", "]"},
		{"{", `"k"`, ":", "1", "}"}, {"[", "[", "]", "]"}, {"[", "{", "}", "]"},
		{"{", `"k"`, ":", "[", "]", "}"},
	}
	if c.Thorough() {
		small = append(small, []string{"{", `"k"`, ":", "{", "}", "}"}, []string{"[", "null", ",", "-1.5e3", "]"})
	}
	for _, toks := range small {
		gaps := len(toks) + 1
		idx := make([]int, gaps)
		for {
			if c.Next() && !c.Expired() {
				var sb strings.Builder
				for i, t := range toks {
					sb.WriteString(ws[idx[i]])
					sb.WriteString(t)
				}
				sb.WriteString(ws[idx[gaps-1]])
				runDoc([]byte(sb.String()), "layout", 1)
			}
			i := 0
			for ; i < gaps; i++ {
				idx[i]++
				if idx[i] < len(ws) {
					break
				}
				idx[i] = 0
			}
			if i == gaps {
				break
			}
		}
	}

	// --- depth axis
	// 127..130: around the parser's 128-entry path bookkeeping
	depths := []int{1, 2, 100, 127, 128, 129, 130, 200, 4095, 4096}
	shapes := []struct {
		name        string
		open, close string
		inner       string
	}{
		{"arrays", "[", "]", "1"},
		{"objects", `{"k":`, "}", "1"},
		{"alternating", `[{"k":`, "}]", `"v"`},
		{"arrays-empty", "[", "]", ""},
		{"spaced", " [ ", " ] ", " 1 "},
		// the innermost object has several members, and every level a sibling
		{"objects-two-members-inside", `{"k":`, "}", `{"a":1,"b":[2],"c":{"d":null}}`},
		{"objects-with-trailing-sibling", `{"k":`, `,"z":0}`, `{"a":1,"b":2}`},
	}
	for _, sh := range shapes {
		for _, d := range depths {
			per := 1
			if sh.name == "alternating" {
				per = 2
			}
			n := d / per
			if n == 0 {
				continue
			}
			if strings.HasPrefix(sh.name, "objects-two") || strings.HasPrefix(sh.name, "objects-with") {
				if d > 1000 {
					continue // their innermost value nests further: stay well inside the cap
				}
			}
			if !c.Next() || c.Expired() {
				continue
			}
			doc := strings.Repeat(sh.open, n) + sh.inner + strings.Repeat(sh.close, n)
			if sh.inner == "" && sh.name == "arrays-empty" {
				doc = strings.Repeat("[", n) + strings.Repeat("]", n)
			}
			stride := 1
			if len(doc) > 4096 && !c.Thorough() {
				stride = 7
				c.Note("depth.cut-stride-7-on-large-docs(quick)", 1)
			}
			runDoc([]byte(doc), "depth:"+sh.name, stride)
		}
	}

	// --- very long tokens (longer than the default limit): strings, keys, numbers
	long := strings.Repeat("x", 5000)
	for _, d := range []string{
		`["` + long + `",1]`, `{"` + long + `":[1,2]}`, `{"k":"` + long + `","j":{"a":[true]}}`,
		`[` + strings.Repeat("7", 4000) + `.5e10,"a"]`, `[1,"a` + strings.Repeat(`\n`, 2000) + `b",null]`,
		`{"a":[` + strings.Repeat(`"s",`, 1200) + `"s"]}`,
	} {
		if !c.Next() || c.Expired() {
			continue
		}
		runDoc([]byte(d), "long-tokens", 13)
	}

	// --- the exception itself
	svg := &core.Case{Kind: "c08svg"}
	for _, d := range []string{`{"a":"<svg"}`, `["<svg>"]`, `{"<svg":1}`} {
		if c.Mine(0) {
			svg.In, svg.Limit = []byte(d), 0
			c.R.Evals++
			c.Check(svg)
		}
	}
	c.Note("documents", ndocs)
	c.Note("document-cut-pairs", ncuts)
}

// spaceOut inserts sep between structural tokens of a compact document,
// leaving string contents alone.
func spaceOut(s, sep string) string {
	var sb strings.Builder
	inStr := false
	for i := 0; i < len(s); i++ {
		ch := s[i]
		if inStr {
			sb.WriteByte(ch)
			if ch == '\\' && i+1 < len(s) {
				i++
				sb.WriteByte(s[i])
			} else if ch == '"' {
				inStr = false
			}
			continue
		}
		switch ch {
		case '"':
			inStr = true
			sb.WriteByte(ch)
		case '[', '{', ',', ':':
			sb.WriteByte(ch)
			sb.WriteString(sep)
		case ']', '}':
			sb.WriteString(sep)
			sb.WriteByte(ch)
		default:
			sb.WriteByte(ch)
		}
	}
	return sb.String()
}
