package checks

import (
	"fmt"

	"github.com/gabriel-vasile/mimetype/internal/verifx/core"
)

// C03 — the reported hierarchy is the first-match deepest path of the tree.
//
// Trace conformance: every detector of the implementation is wrapped by a
// recorder; for each input the sequence of consultations made inside Detect
// must equal, element by element, the consultations of the reference
// first-match walk over the model tree (no skip, no backtrack, no reorder), and
// the returned chain must equal the model path.
//
// Inputs: every witness and every prefix (<=600); every ordered pair of
// witnesses concatenated and overlaid; all byte strings <= 2; x limits
// {0, 3072, len, len/2}; on the built-in tree and on trees enlarged by Extend
// histories (C14 explores histories exhaustively; here a fixed set of 10, two of which contain a detector that calls SetLimit while the walk is in progress).
func init() { Registry["C03"] = &Check{Setup: c03Setup, Run: c03Run} }

var c03Trees = [][]extOp{
	nil,
	{{Attach: 0, Pred: 2}},                          // root <- prefix foo
	{{Attach: 2, Pred: 4, Aliases: 1}},              // text/plain <- {...
	{{Attach: 3, Pred: 3}, {Attach: 8, Pred: 1}},    // zip <- PK34 ; ext1 <- always
	{{Attach: 4, Pred: 1}, {Attach: 4, Pred: 4}},    // json <- always ; json <- {
	{{Attach: 0, Pred: 5}, {Attach: 2, Pred: 7}},    // root <- contains NUL ; text <- limit==0
	{{Attach: 1, Pred: 1, Aliases: 2}},              // root(lookup) <- always: everything is x/e1
	{{Attach: 6, Pred: 1}, {Attach: 7, Pred: 6}},    // png <- always ; pdf <- empty
	{{Attach: 0, Pred: 8}},                          // root <- detector that calls SetLimit(0) and rejects
	{{Attach: 2, Pred: 9}, {Attach: 0, Pred: 8}},    // text/plain <- SetLimit(5) rejects ; root <- SetLimit(0) rejects
	// Extend called on a detection result (a detached copy): the tree stays as it is
	{{Attach: 10, Pred: 5}, {Attach: 10, Pred: 1, Aliases: 1}},
	// a chain of extensions below application/json: nodes at depth 3, 4 and 5
	// (the built-in tree is three levels deep)
	{{Attach: 4, Pred: 4}, {Attach: 8, Pred: 1, Aliases: 1}, {Attach: 8, Pred: 4}, {Attach: 8, Pred: 1, NoExt: true}},
	// nodes that share their parent's MIME string (only the extension differs)
	{{Attach: 2, Pred: 1, Same: true}, {Attach: 5, Pred: 1, Same: true}, {Attach: 0, Pred: 5, Same: true}}, // text/plain <- always ; text/xml <- always ; root <- contains NUL
}

var c03Cur *treeModel
var c03CurIdx = -1

func c03Tree(i int) *treeModel {
	if c03CurIdx != i {
		c03Cur = installTree(c03Trees[i], c03Cur)
		c03CurIdx = i
	}
	return c03Cur
}

func c03Eval(cs *core.Case) (bool, string, string) {
	t := c03Tree(cs.Ints[0])
	ok, sig, msg, _, _ := t.checkDetect(cs.In, cs.Limit)
	return ok, sig, msg
}

func c03Setup(c *core.Ctx) { c.Register("c03", c03Eval) }

func spliceInputs(W []Witness, maxLen int, f func(a, b int, s []byte)) {
	cut := func(d []byte) []byte {
		if len(d) > maxLen {
			return d[:maxLen]
		}
		return d
	}
	for i := range W {
		a := cut(W[i].Data)
		for j := range W {
			b := cut(W[j].Data)
			s := append(append([]byte{}, a...), b...)
			f(i, j, s)
			if len(b) > len(a) && len(a) > 0 {
				o := append(append([]byte{}, a...), b[len(a):]...)
				f(i, j, o)
			}
		}
	}
}

func c03Run(c *core.Ctx) {
	W := corpus(c)
	cs := &core.Case{Kind: "c03", Ints: []int{0}}
	trees := len(c03Trees)
	c.Info("trees", fmt.Sprint(trees))
	c.Info("witnesses", fmt.Sprint(len(W)))
	try := func(ti int, in []byte, limit uint32, class string) {
		cs.In, cs.Limit, cs.Ints[0] = in, limit, ti
		c.R.Transitions++
		c.R.Evals++
		t := c03Tree(ti)
		ok, sig, msg, depth, leaf := t.checkDetect(in, limit)
		c.R.Traces++
		if !ok {
			// confirm through the generic path (5 re-executions + replay file)
			_, _ = sig, msg
			c.R.Traces--
			c.Check(cs)
			return
		}
		if depth >= 3 || (leaf != nil && !leaf.builtin) {
			c.R.Nontrivial++
			c.SampleCase(class+":deep", cs)
		} else {
			c.SampleCase(class, cs)
		}
	}
	limitsOf := func(n int) []uint32 {
		return []uint32{0, 3072, uint32(n), uint32(n / 2)}
	}
	for ti := 0; ti < trees; ti++ {
		// (1) witnesses and prefixes
		for wi, w := range W {
			if !c.Next() || c.Expired() {
				continue
			}
			_ = wi
			max := len(w.Data)
			if max > 600 {
				max = 600
			}
			for cut := 0; cut <= max; cut++ {
				c.R.States++
				try(ti, w.Data[:cut], 0, "witness-prefix")
				try(ti, w.Data, uint32(cut), "witness-prefix")
			}
			if len(w.Data) > 600 {
				for _, l := range limitsOf(len(w.Data)) {
					try(ti, w.Data, l, "witness-long")
				}
			}
		}
		// (3) all byte strings <= 2
		for a := 0; a < 256; a++ {
			if !c.Next() || c.Expired() {
				continue
			}
			c.R.States++
			try(ti, []byte{byte(a)}, 0, "bytes<=2")
			for b := 0; b < 256; b++ {
				c.R.States++
				try(ti, []byte{byte(a), byte(b)}, 0, "bytes<=2")
				try(ti, []byte{byte(a), byte(b)}, 1, "bytes<=2")
			}
		}
	}
	// (1c) every witness followed by / preceded by every byte-string constant of
	// the detectors' sources (built-in tree and the zip/json extension trees)
	lits := literals(c)
	c.Info("source_literals", fmt.Sprint(len(lits)))
	for _, ti := range []int{0, 3, 4} {
		for _, w := range W {
			if len(w.Data) > 2000 || !c.Next() || c.Expired() {
				continue
			}
			for _, lit := range lits {
				s := append(append([]byte{}, w.Data...), lit...)
				c.R.States++
				try(ti, s, 0, "witness+source-literal")
				try(ti, s, uint32(len(w.Data)+len(lit)/2), "witness+source-literal")
				if ti == 0 {
					p := append(append([]byte{}, lit...), w.Data...)
					c.R.States++
					try(ti, p, 0, "source-literal+witness")
				}
			}
		}
	}
	// (2) splices of all ordered pairs, on the built-in tree and (thorough) on all trees
	var spliceTrees []int
	for i := 0; i < trees; i++ {
		spliceTrees = append(spliceTrees, i)
	}
	maxLen := 1300
	if c.Thorough() {
		maxLen = 4800
	}
	for _, ti := range spliceTrees {
		for i := range W {
			if !c.Next() || c.Expired() {
				continue
			}
			a := W[i].Data
			if len(a) > maxLen {
				a = a[:maxLen]
			}
			for j := range W {
				b := W[j].Data
				if len(b) > maxLen {
					b = b[:maxLen]
				}
				s := append(append([]byte{}, a...), b...)
				c.R.States++
				for _, l := range limitsOf(len(s)) {
					try(ti, s, l, "splice-concat")
				}
				if len(b) > len(a) && len(a) > 0 {
					o := append(append([]byte{}, a...), b[len(a):]...)
					c.R.States++
					for _, l := range limitsOf(len(o)) {
						try(ti, o, l, "splice-overlay")
					}
				}
			}
		}
	}
}
