package checks

import (
	"bytes"
	"fmt"
	"strings"

	"github.com/gabriel-vasile/mimetype/internal/verifx/core"
	"github.com/gabriel-vasile/mimetype/internal/verifx/ref"
)

// C13 — line-oriented formats survive truncation and require well-formed lines.
//
//	P1 tables (csv/tsv): every assignment of the cell menu to r x c tables with
//	   r*c <= 6, row-uniform tables above, x delimiter x EOL x final terminator,
//	   at limit 0 and every limit from just after the second line's terminator
//	   to len+1: the type must be kept.
//	P2 streams (ndjson): every sequence of 2..k records from the record menu
//	   with at least one container, same limits.
//	N1 converse, exhaustive: every string over {a , TAB LF # CR} up to n: a
//	   csv/tsv verdict implies >= 2 non-blank non-comment complete lines that all
//	   have the same number (>= 2) of fields.
//	N2 converse, exhaustive: every string over a JSON-line alphabet up to n: an
//	   ndjson verdict implies >= 2 lines, every complete line blank or a complete
//	   JSON value (reference recogniser), at least one container.
//	N3 damaged tables / streams: one damaged line at every position.
func init() { Registry["C13"] = &Check{Setup: c13Setup, Run: c13Run} }

func c13PosEval(cs *core.Case) (bool, string, string) {
	m := detect(cs.In, cs.Limit)
	want := cs.Strs[0]
	if bare(m.String()) == want {
		return true, "", ""
	}
	ext := map[string]string{"text/csv": ".csv", "text/tab-separated-values": ".tsv", "application/x-ndjson": ".ndjson"}[want]
	if higherPriority(m, want, ext) {
		return true, "exception", ""
	}
	h := header(cs.In, cs.Limit)
	mode := "whole"
	if cs.Limit != 0 && uint64(len(cs.In)) >= uint64(cs.Limit) {
		mode = "cut"
	}
	return false, "C13/type-lost/" + want + "/" + mode,
		fmt.Sprintf("%s input %s examined with limit %d (header %s, %s) is reported as %s", want, core.Quote(cs.In), cs.Limit, core.Quote(h), mode, chainStr(m))
}

// completeLines returns the lines the statement calls complete: all lines in
// whole mode, the terminated ones in truncated mode.
func completeLines(in []byte, limit uint32) [][]byte {
	h := header(in, limit)
	whole := limit == 0 || uint64(len(in)) < uint64(limit)
	if len(h) == 0 {
		return nil
	}
	parts := bytes.Split(h, []byte("\n"))
	if bytes.HasSuffix(h, []byte("\n")) {
		parts = parts[:len(parts)-1]
	} else if !whole {
		parts = parts[:len(parts)-1] // incomplete last line is ignored
	}
	return parts
}

func c13NegEval(cs *core.Case) (bool, string, string) {
	m := detect(cs.In, cs.Limit)
	b := bare(m.String())
	lines := completeLines(cs.In, cs.Limit)
	switch b {
	case "text/csv", "text/tab-separated-values":
		delim := byte(',')
		if b != "text/csv" {
			delim = '\t'
		}
		records, width := 0, -1
		for _, l := range lines {
			l = bytes.TrimSuffix(l, []byte("\r"))
			if len(l) == 0 || l[0] == '#' {
				continue
			}
			if bytes.IndexByte(l, '"') >= 0 {
				return true, "skip-quotes", "" // quoting is outside this converse alphabet
			}
			f := bytes.Count(l, []byte{delim}) + 1
			if width == -1 {
				width = f
			} else if f != width {
				return false, "C13/converse/" + b + "/ragged", fmt.Sprintf("input %s (limit %d) is reported as %s but its complete lines have %d and %d fields", core.Quote(cs.In), cs.Limit, b, width, f)
			}
			records++
		}
		if records < 2 || width < 2 {
			return false, "C13/converse/" + b + "/too-few", fmt.Sprintf("input %s (limit %d) is reported as %s but has %d complete record lines of %d fields", core.Quote(cs.In), cs.Limit, b, records, width)
		}
	case "application/x-ndjson":
		containers := 0
		for _, l := range lines {
			l = bytes.TrimSuffix(l, []byte("\r"))
			if len(bytes.TrimSpace(l)) == 0 {
				continue
			}
			info := ref.ClassifyValue(l)
			if info.Status != ref.Complete {
				return false, "C13/converse/ndjson/incomplete-line-" + info.Status.String(), fmt.Sprintf("input %s (limit %d) is reported as NDJSON but its complete line %s is not a complete JSON value (%s)", core.Quote(cs.In), cs.Limit, core.Quote(l), info.Status)
			}
			if info.First == '{' || info.First == '[' {
				containers++
			}
		}
		if len(lines) < 2 || containers == 0 {
			return false, "C13/converse/ndjson/too-few", fmt.Sprintf("input %s (limit %d) is reported as NDJSON with %d complete lines and %d containers", core.Quote(cs.In), cs.Limit, len(lines), containers)
		}
	}
	return true, "", ""
}

func c13Setup(c *core.Ctx) {
	c.Register("c13pos", c13PosEval)
	c.Register("c13neg", c13NegEval)
}

func c13Run(c *core.Ctx) {
	pos := &core.Case{Kind: "c13pos", Strs: []string{""}}
	neg := &core.Case{Kind: "c13neg"}

	// run a positive document at limit 0 and every limit from just after the
	// second line terminator to len+1
	runPos := func(doc []byte, want, class string) {
		pos.In, pos.Strs[0] = doc, want
		c.R.States++
		c.SampleCase(class, pos)
		e2, seen := -1, 0
		for i, b := range doc {
			if b == '\n' {
				seen++
				if seen == 2 {
					e2 = i + 1
					break
				}
			}
		}
		limits := []uint32{0, uint32(len(doc) + 1)}
		if e2 >= 0 {
			for l := e2; l <= len(doc); l++ {
				limits = append(limits, uint32(l))
			}
		}
		for _, l := range limits {
			pos.Limit = l
			c.R.Transitions++
			c.R.Evals++
			if l != 0 && int(l) <= len(doc) {
				c.R.Nontrivial++
			}
			c.Check(pos)
		}
		// the converse oracle must agree on positive documents as well
		neg.In = doc
		for _, l := range limits {
			neg.Limit = l
			c.R.Evals++
			c.Check(neg)
		}
	}
	runNeg := func(doc []byte, class string) {
		neg.In = doc
		c.R.States++
		c.SampleCase(class, neg)
		for _, l := range []uint32{0, uint32(len(doc)), uint32(len(doc) + 1)} {
			neg.Limit = l
			c.R.Transitions++
			c.R.Evals++
			c.Check(neg)
		}
		c.R.Nontrivial++
	}

	// ---------------- P1 tables
	// `5" x`: a bare quote inside an unquoted cell (inch marks), which real
	// tables contain and which the statement does not exclude
	cells := []string{"a", "", "x y", `"a,b"`, `"a""b"`, `5" x`}
	if c.Thorough() {
		cells = []string{"a", "1", "", "x y", "é", `"q"`, `"a,b"`, `"a""b"`, `5" x`}
	}
	c.Info("P1.cells", strings.Join(cells, "|"))
	build := func(rows [][]string, delim, eol string, final bool) []byte {
		var sb strings.Builder
		for i, r := range rows {
			sb.WriteString(strings.Join(r, delim))
			if i < len(rows)-1 || final {
				sb.WriteString(eol)
			}
		}
		return []byte(sb.String())
	}
	variants := func(rows [][]string, class string) {
		for _, delim := range []string{",", "\t"} {
			if delim == "\t" {
				skip := false
				for _, r := range rows {
					for _, cell := range r {
						if strings.Contains(cell, ",") {
							skip = true
						}
					}
				}
				if skip {
					continue
				}
			}
			want := "text/csv"
			if delim == "\t" {
				want = "text/tab-separated-values"
			}
			for _, eol := range []string{"\n", "\r\n"} {
				for _, final := range []bool{true, false} {
					doc := build(rows, delim, eol, final)
					runPos(doc, want, class)
					// spreadsheet exports start with a UTF-8 byte-order mark
					// (not demanded when the first cell is quoted: the mark then hides
					// the opening quote from encoding/csv, a limitation outside the statement)
					if (eol == "\n" || final) && !strings.HasPrefix(rows[0][0], "\"") {
						runPos(append([]byte{0xEF, 0xBB, 0xBF}, doc...), want, class+"+utf8-bom")
					}
				}
			}
		}
	}
	for _, dim := range [][2]int{{2, 2}, {3, 2}, {2, 3}} {
		r, cc := dim[0], dim[1]
		n := r * cc
		idx := make([]int, n)
		for {
			if c.Next() && !c.Expired() {
				rows := make([][]string, r)
				for i := range rows {
					rows[i] = make([]string, cc)
					for j := range rows[i] {
						rows[i][j] = cells[idx[i*cc+j]]
					}
				}
				variants(rows, "P1:table-all-assignments")
			}
			i := 0
			for ; i < n; i++ {
				idx[i]++
				if idx[i] < len(cells) {
					break
				}
				idx[i] = 0
			}
			if i == n {
				break
			}
		}
	}
	// tables that start with (or contain) a comment line or an empty line: limits
	// count from the end of the second *record* line
	for _, delim := range []string{",", "\t"} {
		want := "text/csv"
		if delim == "\t" {
			want = "text/tab-separated-values"
		}
		rec := func(cells ...string) string { return strings.Join(cells, delim) }
		for _, eol := range []string{"\n", "\r\n"} {
			for _, lead := range [][]string{{"# exported by tool"}, {"# id" + delim + "name"}, {""}, {"#"}, {"# a", "# b"}, {"", "# c"}} {
				if !c.Next() || c.Expired() {
					continue
				}
				for _, mid := range []string{"", "# note", "#"} {
					lines := append([]string{}, lead...)
					lines = append(lines, rec("id", "name"), rec("1", "a"))
					if mid != "" {
						lines = append(lines, mid)
					}
					lines = append(lines, rec("2", "b"), rec("3", "c"))
					doc := []byte(strings.Join(lines, eol) + eol)
					// end of the second record line
					e2 := 0
					for i, l := range lines {
						e2 += len(l) + len(eol)
						if i == len(lead)+1 {
							break
						}
					}
					pos.In, pos.Strs[0] = doc, want
					c.R.States++
					limits := []uint32{0, uint32(len(doc) + 1)}
					for l := e2; l <= len(doc); l++ {
						limits = append(limits, uint32(l))
					}
					for _, l := range limits {
						pos.Limit = l
						c.R.Transitions++
						c.R.Evals++
						c.Check(pos)
					}
					c.SampleCase("P1:leading-comment-or-blank", pos)
				}
			}
		}
	}
	// TSV tables whose cells hold commas in a ragged way (so that the CSV
	// reading of the same bytes aborts in the middle and TSV must still win)
	for r := 3; r <= 5; r++ {
		for at := 0; at < r; at++ {
			for _, cell := range []string{"a,b", "x,y,z", ","} {
				if !c.Next() || c.Expired() {
					continue
				}
				rows := make([][]string, r)
				for i := range rows {
					rows[i] = []string{"p", "q"}
					if i == at {
						rows[i] = []string{cell, "q"}
					}
				}
				for _, eol := range []string{"\n", "\r\n"} {
					for _, final := range []bool{true, false} {
						runPos(build(rows, "\t", eol, final), "text/tab-separated-values", "P1:tsv-with-ragged-commas")
					}
				}
			}
		}
	}
	// tables with a cell longer than a 4096-byte read buffer, in every row position
	for at := 0; at < 3; at++ {
		for _, delim := range []string{",", "\t"} {
			if !c.Next() || c.Expired() {
				continue
			}
			rows := [][]string{{"a", "b"}, {"c", "d"}, {"e", "f"}}
			rows[at] = []string{strings.Repeat("x", 5000), "y"}
			doc := build(rows, delim, "\n", true)
			want := "text/csv"
			if delim == "\t" {
				want = "text/tab-separated-values"
			}
			pos.In, pos.Strs[0] = doc, want
			c.R.States++
			for _, l := range []uint32{0, uint32(len(doc) + 1), uint32(len(doc)), uint32(len(doc) - 1), uint32(len(doc) - 3), 5010, 5012, 5014, 8192} {
				if int(l) != 0 && int(l) < 5009 && at < 2 {
					continue
				}
				pos.Limit = l
				c.R.Transitions++
				c.R.Evals++
				c.Check(pos)
			}
		}
	}
	// row-uniform larger tables: every row pattern (a c-tuple) repeated r times,
	// plus alternation of two patterns
	for cc := 2; cc <= 4; cc++ {
		var pats [][]string
		idx := make([]int, cc)
		for {
			p := make([]string, cc)
			for j := range p {
				p[j] = cells[idx[j]]
			}
			pats = append(pats, p)
			i := 0
			for ; i < cc; i++ {
				idx[i]++
				if idx[i] < len(cells) {
					break
				}
				idx[i] = 0
			}
			if i == cc {
				break
			}
		}
		for r := 3; r <= 5; r++ {
			for pi, p := range pats {
				if !c.Next() || c.Expired() {
					continue
				}
				rows := make([][]string, r)
				for i := range rows {
					rows[i] = p
					if i%2 == 1 {
						rows[i] = pats[(pi*7+3)%len(pats)]
					}
				}
				variants(rows, "P1:table-row-uniform")
			}
		}
	}

	// ---------------- P2 streams
	recs := []string{`{}`, `{"a":1}`, `[1,2]`, `[{"a":[]}]`, `1`, `"s"`, `true`, `null`, ` {"a": 1} `}
	isContainer := func(s string) bool { t := strings.TrimSpace(s); return t[0] == '{' || t[0] == '[' }
	kmax := 4
	if c.Thorough() {
		kmax = 5
	}
	c.Info("P2.records", strings.Join(recs, "|"))
	c.Info("P2.max_records", fmt.Sprint(kmax))
	var sel []int
	var recS func()
	recS = func() {
		if len(sel) >= 2 {
			// a container must lie within the first two records: a header that
			// holds none cannot be NDJSON by the converse clause of the property
			has := isContainer(recs[sel[0]]) || isContainer(recs[sel[1]])
			if has && c.Next() && !c.Expired() {
				for _, eol := range []string{"\n", "\r\n"} {
					for _, final := range []bool{true, false} {
						var sb strings.Builder
						for i, ri := range sel {
							sb.WriteString(recs[ri])
							if i < len(sel)-1 || final {
								sb.WriteString(eol)
							}
						}
						runPos([]byte(sb.String()), "application/x-ndjson", "P2:stream")
						// a blank line as the first or the second line of the stream (the
						// other one of the first two lines being an object or array):
						// lines are lines, the limit may cut right after them
						if isContainer(recs[sel[0]]) {
							for _, at := range []int{0, 1} {
								for _, bl := range []string{"", " ", "\t "} {
									sb.Reset()
									for i, ri := range sel {
										if i == at {
											sb.WriteString(bl)
											sb.WriteString(eol)
										}
										sb.WriteString(recs[ri])
										if i < len(sel)-1 || final {
											sb.WriteString(eol)
										}
									}
									runPos([]byte(sb.String()), "application/x-ndjson", "P2:stream-blank-line-among-first-two")
								}
							}
						}
						// the same stream with a blank line (empty, or holding only
						// spaces / tabs) after its second record
						if len(sel) >= 3 {
							for _, bl := range []string{"", " ", "\t "} {
								sb.Reset()
								for i, ri := range sel {
									if i == 2 {
										sb.WriteString(bl)
										sb.WriteString(eol)
									}
									sb.WriteString(recs[ri])
									if i < len(sel)-1 || final {
										sb.WriteString(eol)
									}
								}
								runPos([]byte(sb.String()), "application/x-ndjson", "P2:stream-with-blank-line")
							}
						}
					}
				}
			}
		}
		if len(sel) == kmax {
			return
		}
		for i := range recs {
			sel = append(sel, i)
			recS()
			sel = sel[:len(sel)-1]
		}
	}
	recS()

	// ---------------- P3 / N4 streams with one very long line (beyond any fixed
	// line buffer: 70000 and 1100000 bytes), examined in full and with large limits
	{
		for li, n := range []int{70000, 1100000} {
			long := `{"pad":"` + strings.Repeat("x", n) + `"}`
			for at := 0; at < 3; at++ {
				if !c.Mine(uint64(li*3+at)) || c.Expired() {
					continue
				}
				lines := []string{`{"a":1}`, `[2]`, `{"c":3}`}
				lines[at] = long
				doc := []byte(strings.Join(lines, "\n") + "\n")
				pos.In, pos.Strs[0] = doc, "application/x-ndjson"
				c.R.States++
				for _, l := range []uint32{0, uint32(len(doc)), uint32(len(doc) + 1), uint32(len(doc) - 3)} {
					pos.Limit = l
					c.R.Transitions++
					c.R.Evals++
					c.R.Nontrivial++
					c.Check(pos)
				}
				c.SampleCase("P3:stream-with-very-long-line", pos)
				// a damaged complete line behind the long one
				bad := []byte(strings.Join(append(append([]string{}, lines...), `{"d":`, `{"e":5}`), "\n") + "\n")
				neg.In = bad
				for _, l := range []uint32{0, uint32(len(bad) + 1)} {
					neg.Limit = l
					c.R.Transitions++
					c.R.Evals++
					c.Check(neg)
				}
			}
		}
	}
	// ---------------- N1 exhaustive converse for csv/tsv
	alphaN1 := []byte("a,\t\n#")
	n1 := 8
	if c.Thorough() {
		alphaN1 = []byte("a,\t\n#\r")
		n1 = 9
	}
	c.Info("N1.alphabet", fmt.Sprintf("%q up to %d", alphaN1, n1))
	var recN func(s []byte, alpha []byte, max int, class string)
	recN = func(s []byte, alpha []byte, max int, class string) {
		if len(s) > 0 {
			runNeg(s, class)
		}
		if len(s) == max {
			return
		}
		for _, x := range alpha {
			recN(append(s, x), alpha, max, class)
		}
	}
	buf := make([]byte, 0, 16)
	for _, x := range alphaN1 {
		for _, y := range alphaN1 {
			for _, z := range alphaN1 {
				if c.Next() && !c.Expired() {
					recN(append(buf[:0], x, y, z), alphaN1, n1, "N1:csv-converse")
				}
			}
		}
	}
	// ---------------- N2 exhaustive converse for ndjson
	alphaN2 := []byte("{}[]1,\":\n a")
	n2 := 6
	if c.Thorough() {
		n2 = 7
	}
	c.Info("N2.alphabet", fmt.Sprintf("%q up to %d", alphaN2, n2))
	for _, x := range alphaN2 {
		for _, y := range alphaN2 {
			if c.Next() && !c.Expired() {
				recN(append(buf[:0], x, y), alphaN2, n2, "N2:ndjson-converse")
			}
		}
	}
	// ---------------- N3 damaged tables and streams
	goodRow := []string{"a", "b", "c"}
	damagedRows := []string{"a,b,c,d", "a,b", "abc", `a,"b,c`, ""}
	for r := 3; r <= 5; r++ {
		for pos := 0; pos < r; pos++ {
			for _, dmg := range damagedRows {
				for _, comment := range []int{-1, 0, 1, 2} {
					if !c.Next() {
						continue
					}
					var lines []string
					for i := 0; i < r; i++ {
						if i == comment {
							lines = append(lines, "# note, with, commas, in, it")
						}
						if i == pos {
							lines = append(lines, dmg)
						} else {
							lines = append(lines, strings.Join(goodRow, ","))
						}
					}
					for _, eol := range []string{"\n", "\r\n"} {
						runNeg([]byte(strings.Join(lines, eol)+eol), "N3:damaged-table")
						runNeg([]byte(strings.Join(lines, eol)), "N3:damaged-table")
					}
				}
			}
		}
	}
	damagedRecs := []string{`{"a":`, `[1,`, `{a}`, `{} x`, `"s`, `tru`, `{"a":1}}`, `[`, `{"a"`, `[1 2]`}
	for k := 2; k <= 4; k++ {
		for pos := 0; pos < k; pos++ {
			for _, dmg := range damagedRecs {
				for _, good := range []string{`{"a":1}`, `[1,2]`, `1`} {
					if !c.Next() {
						continue
					}
					// blank lines are legal anywhere in a stream: one (empty, or holding
					// a space) before line `blank`, none for -1
					for blank := -1; blank < k; blank++ {
						for _, bl := range []string{"", " "} {
							if blank < 0 && bl != "" {
								continue
							}
							var lines []string
							for i := 0; i < k; i++ {
								if i == blank {
									lines = append(lines, bl)
								}
								if i == pos {
									lines = append(lines, dmg)
								} else {
									lines = append(lines, good)
								}
							}
							for _, eol := range []string{"\n", "\r\n"} {
								runNeg([]byte(strings.Join(lines, eol)+eol), "N3:damaged-stream")
								runNeg([]byte(strings.Join(lines, eol)), "N3:damaged-stream")
							}
						}
					}
				}
			}
		}
	}
}
