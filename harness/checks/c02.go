package checks

import (
	"bytes"
	"errors"
	"fmt"
	"io"
	"mime"
	"os"
	"path/filepath"
	"strings"

	"github.com/gabriel-vasile/mimetype"
	"github.com/gabriel-vasile/mimetype/internal/verifx/core"
	"github.com/gabriel-vasile/mimetype/internal/verifx/ref"
)

// C02 — the result is always a valid, registered MIME type with a rooted
// hierarchy.
//
//	(a) every witness prefix and every byte string <= 2;
//	(b) every label of length <= n over a 32-symbol hostile alphabet, embedded in
//	    7 declaration contexts, at limits {0, 3072, cut inside the label, cut
//	    after the tag}, through Detect (and DetectReader / DetectFile on a
//	    deterministic stride);
//	(c) error results: read error injected at every offset, missing file,
//	    directory.
func init() { Registry["C02"] = &Check{Setup: c02Setup, Run: c02Run} }

var c02Registered map[string]bool

func c02Names() map[string]bool {
	if c02Registered == nil {
		c02Registered = map[string]bool{}
		for _, n := range mimetype.VerifNodes() {
			c02Registered[n.Name] = true
		}
	}
	return c02Registered
}

var c02OK = map[string]bool{} // validated (string -> ok) cache for ancestor strings

// validateResult is the post-condition of C02.
func validateResult(m *mimetype.MIME, err error) (bool, string, string) {
	if m == nil {
		return false, "C02/nil", "nil result"
	}
	s := m.String()
	b, ps, perr := mime.ParseMediaType(s)
	if perr != nil {
		return false, "C02/unparsable", fmt.Sprintf("String() %q is rejected by mime.ParseMediaType: %v", s, perr)
	}
	// the type/subtype as spelled in the result (a format may have been registered
	// through Extend under a name with capitals; it is reported as registered)
	rb := strings.TrimSpace(bare(s))
	if !c02Names()[rb] {
		return false, "C02/unregistered-type", fmt.Sprintf("type %q (from %q) is not a registered format", rb, s)
	}
	if mimetype.Lookup(rb) == nil {
		return false, "C02/lookup-misses-type", fmt.Sprintf("Lookup(%q) is nil", rb)
	}
	for k, v := range ps {
		if k != "charset" {
			return false, "C02/foreign-parameter", fmt.Sprintf("result %q carries parameter %q", s, k)
		}
		if v == "" {
			return false, "C02/empty-charset", fmt.Sprintf("result %q carries an empty charset", s)
		}
		if b != "text/plain" && b != "text/html" && b != "text/xml" {
			return false, "C02/charset-on-other-type", fmt.Sprintf("result %q: charset on %s", s, b)
		}
	}
	if !strings.HasPrefix(strings.ToLower(s), b) {
		return false, "C02/string-does-not-start-with-type", fmt.Sprintf("result %q vs parsed type %q", s, b)
	}
	// hierarchy
	links := 0
	last := m
	for p := m.Parent(); p != nil; p = p.Parent() {
		links++
		if links > 16 {
			return false, "C02/parent-chain-too-long", "Parent() chain longer than 16"
		}
		ps := p.String()
		pb, pps, e := mime.ParseMediaType(ps)
		if e == nil && strings.EqualFold(pb, ps) {
			pb = ps // registered spelling (capitals are the registrant's choice)
		}
		if e != nil || len(pps) != 0 || pb != ps {
			return false, "C02/ancestor-not-bare", fmt.Sprintf("ancestor %q of %q is not a bare valid type", ps, s)
		}
		if !c02Names()[pb] {
			return false, "C02/ancestor-unregistered", fmt.Sprintf("ancestor %q of %q is not registered", ps, s)
		}
		last = p
	}
	if bare(last.String()) != "application/octet-stream" || last.Extension() != "" {
		return false, "C02/not-rooted", fmt.Sprintf("chain of %q ends at %q(%s), not at application/octet-stream", s, last.String(), last.Extension())
	}
	if err != nil {
		if s != "application/octet-stream" || m.Parent() != nil || m.Extension() != "" {
			return false, "C02/error-result-not-root", fmt.Sprintf("error %v returned together with %s", err, chainStr(m))
		}
	}
	return true, "", ""
}

var errInjected = errors.New("verif: injected read error")

type failingReader struct {
	data []byte
	at   int // fail once `at` bytes were delivered
	pos  int
}

func (r *failingReader) Read(p []byte) (int, error) {
	if r.pos >= r.at {
		return 0, errInjected
	}
	n := copy(p, r.data[r.pos:r.at])
	r.pos += n
	return n, nil
}

var c02Tmp string

// c02Eval: Ints[0] = entry (0 Detect, 1 DetectReader, 2 DetectFile,
// 3 failing reader with Ints[1] = offset, 4 missing file, 5 directory).
func c02Eval(cs *core.Case) (bool, string, string) {
	var m *mimetype.MIME
	var err error
	c02UseTree(len(cs.Ints) > 2 && cs.Ints[2] == 1)
	setLimit(cs.Limit)
	switch cs.Ints[0] {
	case 0:
		m = mimetype.Detect(cs.In)
	case 1:
		m, err = mimetype.DetectReader(bytes.NewReader(cs.In))
	case 2:
		if c02Tmp == "" {
			c02Tmp, _ = os.MkdirTemp("", "verif-c02-")
		}
		p := filepath.Join(c02Tmp, "f")
		os.WriteFile(p, cs.In, 0o600)
		m, err = mimetype.DetectFile(p)
	case 3:
		m, err = mimetype.DetectReader(&failingReader{data: cs.In, at: cs.Ints[1]})
		if err != nil && !errors.Is(err, errInjected) {
			return false, "C02/foreign-error", fmt.Sprintf("unexpected error %v", err)
		}
	case 4:
		m, err = mimetype.DetectFile("/nonexistent/verif/definitely-missing")
		if err == nil {
			return false, "C02/missing-file-no-error", "DetectFile on a missing path returned no error"
		}
	case 5:
		m, err = mimetype.DetectFile(os.TempDir())
		if err == nil {
			return false, "C02/directory-no-error", "DetectFile on a directory returned no error"
		}
	}
	if err != nil && cs.Ints[0] < 3 && err != io.EOF {
		return false, "C02/unexpected-error", fmt.Sprintf("in-memory input gave error %v", err)
	}
	ok, sig, msg := validateResult(m, err)
	if !ok {
		msg = fmt.Sprintf("input %s limit %d entry %d: %s", core.Quote(cs.In), cs.Limit, cs.Ints[0], msg)
	}
	return ok, sig, msg
}

func c02Setup(c *core.Ctx) { c.Register("c02", c02Eval) }

// c02ExtTree: formats registered through the public API, two of them under
// names with capitals (as IANA spells e.g. ...sheet.macroEnabled.12): under the
// root (prefix "foo"), under text/plain (first non-space byte '{', so JSON-like
// text lands on it), under zip (PK\x03\x04) and a child of that one (always).
// The text/plain extension lists "text/html" among its aliases (an XHTML-like
// registration): it is still not one of the three charset-bearing types.
// The root extension uses the file extension ".xml" (as a sitemap dialect would).
// The text/plain and text/xml extensions are named "<parent>-ext" (as the IANA
// type text/xml-external-parsed-entity): a name that starts with a
// charset-bearing type's name is still not one of the three.
var c02ExtTree = []extOp{{Attach: 0, Pred: 2, Aliases: 1, ExtXML: true}, {Attach: 2, Pred: 4, Aliases: 2, AliasBuiltin: true, PrefixName: true}, {Attach: 3, Pred: 3, Aliases: 2}, {Attach: 8, Pred: 1}, {Attach: 5, Pred: 1, ExtXML: true, PrefixName: true}, {Attach: 7, Pred: 1, NoExt: true}}

var c02Tree *treeModel
var c02Ext bool

func c02UseTree(ext bool) {
	if ext == c02Ext && (c02Tree != nil || !ext) {
		return
	}
	var h []extOp
	if ext {
		h = c02ExtTree
	}
	c02Tree = installTree(h, c02Tree)
	c02Tree.undo() // no consultation recorder needed here
	c02Tree.undo = nil
	c02Ext = ext
	c02Registered = nil
}

var sigma02 = [][]byte{
	{'a'}, {'Z'}, {'0'}, {'-'}, {'"'}, {'\''}, {'\\'}, {';'}, {'='}, {','}, {'/'}, {'('}, {')'}, {'<'}, {'>'}, {'@'}, {':'}, {'?'}, {'['}, {']'},
	{' '}, {'\t'}, {'\n'}, {'\r'}, {'\f'}, {0x1B}, {0x7F}, {'%'}, {'*'}, {0x80}, {0xC3, 0xA9}, {0xE2}, {0xFF}, {0xC0},
}

// long labels: beyond any fixed bound on the formatted result (token-only,
// needing quotes, non-ASCII)
var longLabels = []string{
	strings.Repeat("iso 8859,1; ", 12), strings.Repeat("x-user-defined-", 12), strings.Repeat("a=b/c ", 60),
	strings.Repeat("caf\xc3\xa9 ", 30), strings.Repeat("q\"uote ", 40), strings.Repeat("l", 126), strings.Repeat("l", 127) + " ", strings.Repeat("x", 2000),
}

var injectionLabels = []string{
	"x; charset=y", "x;charset=y", "iso-8859-1; charset=utf-8", "a; b=c", "a;b", "a; q=1; charset=z", "; charset=", "a\"; b=\"c", "a, b", "a/b", "a b c",
	"x; charset=x", "latin1; CHARSET=utf-8", "a;;b", "a; =b", "a; b=", "utf-8;", " utf-8", "utf-8 ", "x\\; charset=y", "x%3B charset=y", "a\tb; c=d",
}

var c02Contexts = []string{
	`<html><head><meta charset="L"></head>`,
	`<html><meta charset='L'>`,
	`<html><meta charset=L>`,
	`<html><meta http-equiv="Content-Type" content="text/html; charset=L">`,
	`<html><meta http-equiv=content-type content='text/html;charset="L"'>`,
	`<html><meta content="charset=L;x" http-equiv="Content-Type">`,
	`<?xml version="1.0" encoding="L"?><a/>`,
	`<?xml version='1.0' encoding='L'?>`,
}

func c02Run(c *core.Ctx) {
	defer func() {
		if c02Tmp != "" {
			os.RemoveAll(c02Tmp)
		}
	}()
	cs := &core.Case{Kind: "c02", Ints: []int{0, 0}}
	distinct := map[string]bool{}
	try := func(in []byte, limit uint32, entry, off int, class string) {
		cs.In, cs.Limit, cs.Ints[0], cs.Ints[1] = in, limit, entry, off
		c.R.Transitions++
		c.R.Evals++
		c.Check(cs)
		c.SampleCase(class, cs)
	}
	// (a)
	W := corpus(c)
	for _, w := range W {
		if !c.Next() || c.Expired() {
			continue
		}
		max := len(w.Data)
		if max > 600 {
			max = 600
		}
		for cut := 0; cut <= max; cut++ {
			c.R.States++
			try(w.Data[:cut], 0, 0, 0, "a:witness-prefix")
			try(w.Data, uint32(cut), 1, 0, "a:witness-prefix")
		}
		try(w.Data, 0, 2, 0, "a:witness-file")
		// (c) error injected at every offset 0..min(len, 600) for limit 0 and 3072
		for off := 0; off <= max; off++ {
			try(w.Data, 0, 3, off, "c:read-error")
			try(w.Data, 3072, 3, off, "c:read-error")
			try(w.Data, uint32(off+1), 3, off, "c:read-error")
			c.R.Nontrivial++
		}
	}
	// every text witness behind each of the five byte-order marks (formats whose
	// detectors tolerate a BOM must still not carry parameters unless they are one
	// of the three text types)
	for _, w := range W {
		if len(w.Data) == 0 || len(w.Data) > 600 || !c.Next() || c.Expired() {
			continue
		}
		if !inChain(detect(w.Data, 0), "text/plain") {
			continue
		}
		for _, b := range ref.BOMs {
			v := append(append([]byte{}, b.Bytes...), w.Data...)
			c.R.States++
			for _, l := range []uint32{0, 3072, 64, uint32(len(b.Bytes))} {
				try(v, l, 0, 0, "a:bom+text-witness")
			}
			try(v, 0, 1, 0, "a:bom+text-witness")
		}
	}
	if c.Mine(0) {
		try(nil, 0, 4, 0, "c:missing-file")
		try(nil, 3072, 4, 0, "c:missing-file")
		try(nil, 0, 5, 0, "c:directory")
		try(nil, 3072, 5, 0, "c:directory")
	}
	for a := 0; a < 256; a++ {
		if !c.Next() || c.Expired() {
			continue
		}
		try([]byte{byte(a)}, 0, 0, 0, "a:bytes<=2")
		for b := 0; b < 256; b++ {
			c.R.States++
			try([]byte{byte(a), byte(b)}, 0, 0, 0, "a:bytes<=2")
		}
	}
	// (d) the same post-condition on a tree extended through the public API
	// (results that are, or descend from, registered extensions)
	{
		xs := &core.Case{Kind: "c02", Ints: []int{0, 0, 1}}
		extra := [][]byte{[]byte("foo"), []byte("foo bar baz"), []byte(`{"a":1}`), []byte(` {"type":"Feature"}`), []byte("{ not json"), []byte("PK\x03\x04"), []byte("PK\x03\x04\x00\x00mimetype"),
			[]byte(`<?xml version="1.0" encoding="KOI8-R"?><a/>`), []byte("\xef\xbb\xbf<?xml version=\"1.0\"?><a/>"), []byte("\xff\xfe{\x00}\x00"), []byte("\xef\xbb\xbf {\"a\":1}"), []byte("{ caf\xe9 }")}
		run := func(in []byte) {
			for _, l := range []uint32{0, 3072, 4} {
				for entry := 0; entry < 2; entry++ {
					xs.In, xs.Limit, xs.Ints[0] = in, l, entry
					c.R.States++
					c.R.Transitions++
					c.R.Evals++
					c.Check(xs)
				}
			}
			c.SampleCase("d:extended-tree", xs)
		}
		for _, w := range W {
			if len(w.Data) > 4096 || !c.Next() || c.Expired() {
				continue
			}
			run(w.Data)
		}
		if c.Mine(2) {
			for _, in := range extra {
				run(in)
				c.R.Nontrivial++
			}
		}
		c02UseTree(false)
	}
	// (b)
	n := 3
	if c.Thorough() {
		n = 4
	}
	c.Info("b.alphabet_symbols", fmt.Sprint(len(sigma02)))
	c.Info("b.max_label_symbols", fmt.Sprint(n))
	c.Info("b.contexts", fmt.Sprint(len(c02Contexts)))
	count := 0
	var rec func(label []byte, depth int)
	rec = func(label []byte, depth int) {
		if depth > 1 || (depth == 1 && c.Mine(0)) {
			for ci, ctxT := range c02Contexts {
				i := strings.Index(ctxT, "L")
				for strings.HasPrefix(ctxT[i:], "L\"") == false && strings.HasPrefix(ctxT[i:], "L'") == false && strings.HasPrefix(ctxT[i:], "L>") == false && strings.HasPrefix(ctxT[i:], "L;") == false {
					i += 1 + strings.Index(ctxT[i+1:], "L")
				}
				doc := append(append([]byte(ctxT[:i]), label...), ctxT[i+1:]...)
				c.R.States++
				count++
				limits := []uint32{0, 3072, uint32(i + (len(label)+1)/2), uint32(i + len(label) + 2)}
				for _, l := range limits {
					try(doc, l, 0, 0, "b:hostile-label")
				}
				if count%16 == ci {
					try(doc, 0, 1, 0, "b:hostile-label-reader")
				}
				if count%256 == ci {
					try(doc, 0, 2, 0, "b:hostile-label-file")
				}
				// count distinct charset-bearing results (the mechanism under test)
				setLimit(0)
				if r := mimetype.Detect(doc).String(); strings.Contains(r, "charset") && len(distinct) < 1<<20 {
					if !distinct[r] {
						distinct[r] = true
						c.R.Nontrivial++
					}
				}
			}
		}
		if depth == n {
			return
		}
		for _, sym := range sigma02 {
			if depth == 1 && (!c.Next() || c.Expired()) {
				continue
			}
			rec(append(label, sym...), depth+1)
		}
	}
	// single-symbol labels by shard 0, deeper ones sharded at depth 2
	rec(nil, 0)
	// degenerate declaration syntax (exhaustive over small token alphabets)
	declSyntaxDocs(4, 4, c.Next, func(doc []byte) {
		if c.Expired() {
			return
		}
		c.R.States++
		try(doc, 0, 0, 0, "b:degenerate-declaration")
	})
	// labels that try to smuggle separators, further parameters or a second charset
	if c.Mine(1) {
		for _, l := range injectionLabels {
			rec([]byte(l), 2)
		}
		for _, l := range longLabels {
			rec([]byte(l), n) // depth n: the label itself only, no further symbols
		}
	}
}
