package checks

import (
	"encoding/hex"
	"encoding/json"
	"os"
	"path/filepath"

	"github.com/gabriel-vasile/mimetype/internal/verifx/core"
)

// Witness is an input that some node of the tree is known (or built) to accept.
type Witness struct {
	Name string
	Data []byte
	Exp  string // expected bare type on the pinned tree (informational only)
}

var corpusCache []Witness

// corpus loads the witness corpus: the repository's own test table (dumped
// once into harness/corpus/witnesses.json; the 14 on-disk files are read from
// <repo>/testdata at run time) plus synthesised witnesses (synth.go).
func corpus(c *core.Ctx) []Witness {
	if corpusCache != nil {
		return corpusCache
	}
	var raw []struct {
		Name string `json:"name"`
		Hex  string `json:"hex"`
		File string `json:"file"`
		Exp  string `json:"exp"`
	}
	b, err := os.ReadFile(filepath.Join(c.Home, "harness/corpus/witnesses.json"))
	if err != nil {
		panic(err)
	}
	if err := json.Unmarshal(b, &raw); err != nil {
		panic(err)
	}
	var out []Witness
	for _, e := range raw {
		var d []byte
		if e.File != "" {
			d, err = os.ReadFile(filepath.Join(c.Repo, e.File))
			if err != nil {
				c.Note("corpus-file-missing", 1)
				continue
			}
		} else {
			d, _ = hex.DecodeString(e.Hex)
		}
		out = append(out, Witness{e.Name, d, e.Exp})
	}
	out = append(out, synthWitnesses()...)
	corpusCache = out
	return out
}

var literalsCache [][]byte

// literals returns the byte-string constants found in the sources of the
// packages under test (extracted by the driver from the working tree).
func literals(c *core.Ctx) [][]byte {
	if literalsCache != nil {
		return literalsCache
	}
	b, err := os.ReadFile(filepath.Join(os.Getenv("VERIF_WORKER_DIR"), "literals.json"))
	if err != nil {
		c.Note("literals-missing", 1)
		literalsCache = [][]byte{}
		return literalsCache
	}
	var hs []string
	json.Unmarshal(b, &hs)
	for _, h := range hs {
		if d, err := hex.DecodeString(h); err == nil {
			literalsCache = append(literalsCache, d)
		}
	}
	return literalsCache
}
