package checks

import (
	"time"
	"bytes"
	"fmt"
	"io"
	"os"
	"path/filepath"
	"reflect"
	"sort"
	"strconv"
	"strings"
	"sync"

	"github.com/gabriel-vasile/mimetype"
	"github.com/gabriel-vasile/mimetype/internal/verifx/core"
	"github.com/gabriel-vasile/mimetype/internal/verifx/explore"
	"github.com/gabriel-vasile/mimetype/internal/verifx/sched"
	"github.com/gabriel-vasile/mimetype/internal/verifx/vsync"
)

// C06 — safe for concurrent use.
//
// Part A: every interleaving (up to a preemption bound, iterated 0,1,2,..) of
// small multi-goroutine scenarios under a controlled cooperative scheduler:
// the packages under test are compiled against a sync / sync/atomic shim whose
// every operation is a scheduling point; extension detectors and reader Reads
// supplied by the harness are scheduling points too.
// Part B: the same scenario bodies, free-running under the Go race detector
// (a cooperative scheduler blinds it: every hand-off is a happens-before edge).
func init() {
	Registry["C06"] = &Check{Setup: c06Setup, Run: c06Run}
	subs["race"] = c06RaceChild
	subs["racestress"] = c06RaceStressChild
}

// c06RaceStressChild: 8 goroutines detect every witness (each in a different
// rotation, through Detect and DetectReader), look up every registered name
// and alias and call the accessors, while (variant 1) a ninth goroutine toggles
// the limit and registers extensions. Free-running under the race detector: it
// reaches every node's lazily built or pooled state, which the small scenario
// alphabet of part A cannot.
func c06RaceStressChild(c *core.Ctx, args []string) int {
	variant := 0
	if len(args) > 0 {
		variant, _ = strconv.Atoi(args[0])
	}
	W := corpus(c)
	var names []string
	for _, n := range mimetype.VerifNodes() {
		names = append(names, n.Name)
		names = append(names, n.Aliases...)
	}
	var wg sync.WaitGroup
	start := make(chan struct{})
	for g := 0; g < 8; g++ {
		wg.Add(1)
		go func(g int) {
			defer wg.Done()
			<-start
			for k := range W {
				w := W[(k*7+g*41)%len(W)]
				if len(w.Data) > 8192 {
					continue
				}
				m := mimetype.Detect(w.Data)
				for p := m; p != nil; p = p.Parent() {
					_ = p.String() + p.Extension()
					_ = p.Is("text/plain")
				}
				if g%2 == 0 {
					mimetype.DetectReader(bytes.NewReader(w.Data))
				}
			}
			for k := range names {
				n := names[(k*5+g*13)%len(names)]
				if m := mimetype.Lookup(n); m != nil {
					_ = m.Is(n)
					_ = m.Parent()
				}
			}
		}(g)
	}
	if variant == 1 {
		wg.Add(1)
		go func() {
			defer wg.Done()
			<-start
			for i := 0; i < 200; i++ {
				mimetype.SetLimit(uint32([]int{0, 8, 3072, 100}[i%4]))
				if i%50 == 0 {
					aliases := make([]string, 1, 3)
					aliases[0] = fmt.Sprintf("x/stress-alias-%d", i)
					mimetype.Extend(func(b []byte, _ uint32) bool { return bytes.HasPrefix(b, []byte("stress")) }, fmt.Sprintf("x/stress-%d", i), ".st", aliases...)
				}
			}
			mimetype.SetLimit(3072)
		}()
	}
	close(start)
	wg.Wait()
	// second phase: ONE returned value is handed to four goroutines that call
	// its accessors at the same time (the property covers "the accessor methods
	// of returned values"): nothing an accessor does may write to the value
	for k := range W {
		if len(W[k].Data) > 8192 {
			continue
		}
		shared := mimetype.Detect(W[k].Data)
		looked := mimetype.Lookup(bare(shared.String()))
		var wg2 sync.WaitGroup
		for g := 0; g < 4; g++ {
			wg2.Add(1)
			go func() {
				defer wg2.Done()
				for _, v := range []*mimetype.MIME{shared, looked} {
					for p := v; p != nil; p = p.Parent() {
						_ = p.String() + p.Extension()
						_ = p.Is("application/zip")
					}
				}
			}()
		}
		wg2.Wait()
	}
	fmt.Println("race-stress-complete")
	return 0
}

// c06StressEval: Ints[0] = variant
func c06StressEval(cs *core.Case) (bool, string, string) {
	dir := os.Getenv("VERIF_WORKER_DIR")
	bin := filepath.Join(dir, "worker-race")
	if _, err := os.Stat(bin); err != nil {
		return true, "skip-no-race-binary", ""
	}
	out, err, hung := runChild(15*time.Minute, append(os.Environ(), "GORACE=halt_on_error=1 exitcode=66", "GOMAXPROCS=8"),
		bin, "C06", "--sub", "racestress", "--home", c06ctx.Home, "--repo", c06ctx.Repo, "--", strconv.Itoa(cs.Ints[0]))
	if hung {
		return false, "C06/free-running-pass-never-returns/stress", fmt.Sprintf("8 goroutines detecting every witness (variant %d) did not finish within 15 minutes (normally well under one): some call never returns. Output: %s", cs.Ints[0], firstLines(out, 6))
	}
	if strings.Contains(out, "WARNING: DATA RACE") || strings.Contains(out, "concurrent map") {
		return false, "C06/data-race/stress", fmt.Sprintf("all witnesses detected by 8 goroutines (variant %d), free-running under the race detector: %s", cs.Ints[0], firstLines(out, 14))
	}
	if err != nil {
		return false, "C06/race-stress-failed", fmt.Sprintf("race stress failed: %v: %s", err, firstLines(out, 8))
	}
	return true, "", ""
}

var c06ctx *core.Ctx

const (
	opDetect = iota
	opReader
	opLookup
	opSetLimit
	opExtend
	opPrelude // marker: the thread that starts with it runs to completion before the others start
	// opPipeReader: DetectReader on a pipe-like reader whose data only arrives
	// once every other thread of the scenario has returned from all its calls
	// (the producer side of the pipe is "the rest of the program")
	opPipeReader
)

type c06Op struct{ kind, arg int }

func (o c06Op) String() string {
	switch o.kind {
	case opDetect:
		return fmt.Sprintf("Detect(in%d)", o.arg)
	case opReader:
		return fmt.Sprintf("DetectReader(in%d)", o.arg)
	case opLookup:
		return fmt.Sprintf("Lookup(%s)+accessors", c06Names[o.arg])
	case opSetLimit:
		return fmt.Sprintf("SetLimit(%d)", o.arg)
	case opExtend:
		return fmt.Sprintf("Extend#%d(%s)", o.arg, c06Exts[o.arg].desc)
	case opPrelude:
		return "[runs first, sequentially]"
	case opPipeReader:
		return fmt.Sprintf("DetectReader(pipe fed with in%d after the other goroutines returned)", o.arg)
	}
	return "?"
}

var c06Inputs = [][]byte{
	[]byte(`{"type":"Feature"}`),
	[]byte("a,b\n1,2\n"),
	[]byte("foo bar"),
	[]byte(`{"a":1}      x`), // JSON when cut at 8, plain text in full
	[]byte(`<html><meta charset="koi8-r">`),
	[]byte("PK\x03\x04" + "\x00\x00\x00\x00\x00\x00\x00\x00\x00\x00\x00\x00\x00\x00\x00\x00\x00\x00\x00\x00\x00\x00\x08\x00\x00\x00" + "mimetype"),
	[]byte(`{"abcdefgh":1}`), // cut at 8 inside the key: JSON as a header of 8, JSON in full, but not JSON if sliced by 8 and judged as a whole file
	[]byte("a,b\n1,2\n3"),    // CSV only if the last line is dropped although the whole file was given
}

var c06Names = []string{"text/plain", "x/r0", "x/r0-a", "application/x-zip", "x/r1", "x/r1-b"}

var c06Exts = []struct {
	desc     string
	attach   string // "root", "text/plain", "x/r0"
	pred     int    // index into extPreds
	name     string
	ext      string
	aliases  []string
	spareCap int
}{
	{"root<-prefix-foo, aliases cap>len", "root", 2, "x/r0", ".r0", []string{"x/r0-a", "X/R0-Legacy; v=1"}, 2},
	{"text/plain<-prefix-foo, aliases cap==len", "text/plain", 2, "x/r1", ".r1", []string{"x/r1-a", "x/r1-b"}, 0},
	{"x/r0(or root)<-always, no aliases", "x/r0", 1, "x/r2", ".r2", nil, 1},
}

func c06Limit(arg int) uint32 { return uint32(arg) }

// schedReader: every Read is a scheduling point (it sits between the limit
// load and the read lock inside DetectReader).
type schedReader struct {
	data []byte
	pos  int
	gate func() // non-nil: the first Read blocks in it until the data "arrives"
}

func (r *schedReader) Read(p []byte) (int, error) {
	if r.gate != nil {
		g := r.gate
		r.gate = nil
		g()
	}
	if h := sched.Active; h != nil {
		h.Point("reader.read", r)
	}
	if r.pos >= len(r.data) {
		return 0, io.EOF
	}
	n := len(p)
	if n > 7 {
		n = 7
	}
	n = copy(p[:n], r.data[r.pos:])
	r.pos += n
	return n, nil
}

type c06Rec struct {
	thread, idx int
	op          c06Op
	s0, s1      int // logical steps at start / end of the call
	acq, rel    int // write-lock acquisition / release steps (Extend), -1 if none
	result      string
	bad         string // oracle (3)/(4) failure found by the thread itself
	backing     []string
	spareFrom   int
	gate        func() // opPipeReader: blocks until the other threads are done
	force       string // sequential replay: reproduce the recorded attachment of a compound Lookup+Extend
}

type c06Scenario [][]c06Op

func (sc c06Scenario) String() string {
	var ts []string
	for i, t := range sc {
		var os []string
		for _, o := range t {
			os = append(os, o.String())
		}
		ts = append(ts, fmt.Sprintf("T%d: %s", i, strings.Join(os, "; ")))
	}
	return strings.Join(ts, " || ")
}

func (sc c06Scenario) encode() []int {
	var out []int
	for i, t := range sc {
		if i > 0 {
			out = append(out, -2)
		}
		for _, o := range t {
			out = append(out, o.kind*100000+o.arg)
		}
	}
	return out
}

func c06Decode(v []int) (c06Scenario, []int) {
	var sc c06Scenario
	cur := []c06Op{}
	for i, x := range v {
		switch {
		case x == -1:
			sc = append(sc, cur)
			return sc, v[i+1:]
		case x == -2:
			sc = append(sc, cur)
			cur = []c06Op{}
		default:
			cur = append(cur, c06Op{x / 100000, x % 100000})
		}
	}
	sc = append(sc, cur)
	return sc, nil
}

// doOp performs one operation on the real API and fills the record.
func c06DoOp(rec *c06Rec, clock func() int, point func(string)) {
	rec.s0 = clock()
	rec.acq, rec.rel = -1, -1
	switch rec.op.kind {
	case opDetect:
		rec.result = chainStr(mimetype.Detect(c06Inputs[rec.op.arg]))
	case opReader:
		m, err := mimetype.DetectReader(&schedReader{data: c06Inputs[rec.op.arg]})
		rec.result = chainStr(m)
		if err != nil {
			rec.bad = "DetectReader returned error " + err.Error()
		}
	case opPipeReader:
		m, err := mimetype.DetectReader(&schedReader{data: c06Inputs[rec.op.arg], gate: rec.gate})
		rec.result = chainStr(m)
		if err != nil {
			rec.bad = "DetectReader returned error " + err.Error()
		}
	case opLookup:
		name := c06Names[rec.op.arg]
		m := mimetype.Lookup(name)
		if m == nil {
			rec.result = "<nil>"
			break
		}
		rec.result = m.String() + "(" + m.Extension() + ")"
		if !m.Is(name) {
			rec.bad = fmt.Sprintf("Lookup(%q) returned %s which does not satisfy Is(%q): half-built?", name, rec.result, name)
		}
		// fully built: an extension node must carry its registered fields
		for _, e := range c06Exts {
			if m.String() == e.name {
				if m.Extension() != e.ext {
					rec.bad = fmt.Sprintf("extension %s observed with extension %q", e.name, m.Extension())
				}
				for _, a := range e.aliases {
					if a != lowerASCII(a) || strings.Contains(a, ";") {
						continue // not in normal form: only the caller's array is checked for it
					}
					if !m.Is(a) {
						rec.bad = fmt.Sprintf("extension %s observed without its alias %s", e.name, a)
					}
				}
				p := m.Parent()
				if p == nil {
					rec.bad = fmt.Sprintf("extension %s observed without a parent", e.name)
				} else {
					rec.result += " parent=" + p.String()
				}
			}
		}
		for i, p := 0, m; p != nil && i < 8; i, p = i+1, p.Parent() {
			_ = p.String()
		}
	case opSetLimit:
		mimetype.SetLimit(c06Limit(rec.op.arg))
	case opExtend:
		e := c06Exts[rec.op.arg]
		backing := make([]string, len(e.aliases)+e.spareCap)
		copy(backing, e.aliases)
		for i := len(e.aliases); i < len(backing); i++ {
			backing[i] = "<spare>"
		}
		rec.backing, rec.spareFrom = backing, len(e.aliases)
		aliases := backing[:len(e.aliases):len(backing)]
		pred := extPreds[e.pred].f
		det := func(raw []byte, l uint32) bool {
			point("ext-detector")
			return pred(raw, l)
		}
		attach := e.attach
		if rec.force == "attached-to-root" {
			attach = "root"
		}
		switch attach {
		case "root":
			mimetype.Extend(det, e.name, e.ext, aliases...)
			if e.attach != "root" {
				rec.result = "attached-to-root"
			}
		default:
			p := mimetype.Lookup(e.attach)
			if p == nil {
				mimetype.Extend(det, e.name, e.ext, aliases...)
				rec.result = "attached-to-root"
			} else {
				p.Extend(det, e.name, e.ext, aliases...)
				rec.result = "attached-to-" + e.attach
			}
		}
	}
	rec.s1 = clock()
}

var c06SeqCache = map[string]string{}

// c06Seq is the sequential oracle: the answer of a quiescent Detect for input
// in, limit L and the tree obtained by applying the given Extend ops in order.
func c06Seq(in int, L uint32, exts []*c06Rec) string {
	var ks []string
	for _, e := range exts {
		ks = append(ks, fmt.Sprintf("%d:%s", e.op.arg, e.result))
	}
	key := fmt.Sprintf("%d|%d|%s", in, L, strings.Join(ks, ","))
	if a, ok := c06SeqCache[key]; ok {
		return a
	}
	c06Reset()
	for _, e := range exts {
		r := &c06Rec{op: e.op, force: e.result}
		c06DoOp(r, func() int { return 0 }, func(string) {})
	}
	mimetype.SetLimit(L)
	a := chainStr(mimetype.Detect(c06Inputs[in]))
	c06SeqCache[key] = a
	return a
}

func c06Reset() {
	if !pristineTaken {
		// Every descent of the tree walk (a detector that accepts) is a scheduling
		// point: a walk that is not protected by the tree lock can then be
		// overtaken by an Extend between two levels. Installed once, before the
		// snapshot, so that VerifRestore keeps the wrappers.
		mimetype.VerifWrapDetectors(func(_ int, _ string, d func([]byte, uint32) bool) func([]byte, uint32) bool {
			return func(raw []byte, l uint32) bool {
				r := d(raw, l)
				if r {
					if h := sched.Active; h != nil {
						h.Point("walk.descend", nil)
					}
				}
				return r
			}
		})
		mimetype.VerifSnapshot()
		pristineNodes = mimetype.VerifNodes()
		pristineTaken = true
	}
	mimetype.VerifRestore()
	mimetype.SetLimit(3072)
	limitKnown = false
	vsync.ResetPools()
}

// c06Exec runs one execution of a scenario under the explorer and applies the
// oracles. It returns ok, sig, msg and an observation string (for counting
// distinct outcomes).
func c06Exec(x *explore.Exec, sc c06Scenario) (bool, string, string, string) {
	c06Reset()
	s := sched.NewCoop(x)
	var recs []*c06Rec
	curExt := map[int]*c06Rec{} // thread -> Extend in progress
	threadOf := map[int]int{}   // scenario thread -> scheduler thread id
	s.OnStep = func(thread int, kind string, obj any) {
		if r := curExt[thread]; r != nil {
			switch kind {
			case "acquired.w":
				r.acq = s.Steps
			case "released.w":
				r.rel = s.Steps
			}
		}
	}
	for ti, ops := range sc {
		ti, ops := ti, ops
		if len(ops) > 0 && ops[0].kind == opPrelude {
			// sequential prelude: no scheduler yet, logical time -1 (before everything)
			for i, o := range ops[1:] {
				r := &c06Rec{thread: ti, idx: i, op: o}
				recs = append(recs, r)
				c06DoOp(r, func() int { return -1 }, func(k string) { s.Point(k, nil) })
				r.acq, r.rel = -3+i, -3+i
				if r.op.kind != opExtend {
					r.acq, r.rel = -1, -1
				}
			}
			continue
		}
		threadOf[ti] = s.Go(func() {
			for i, o := range ops {
				r := &c06Rec{thread: ti, idx: i, op: o}
				recs = append(recs, r)
				if o.kind == opExtend {
					curExt[ti] = r
				}
				if o.kind == opPipeReader {
					r.gate = func() {
						s.WaitUntil("pipe", func() bool {
							for tj := range sc {
								if tj != ti && !(len(sc[tj]) > 0 && sc[tj][0].kind == opPrelude) && !s.Done(threadOf[tj]) {
									return false
								}
							}
							return true
						})
					}
				}
				c06DoOp(r, func() int { return s.Steps }, func(k string) { s.Point(k, nil) })
				curExt[ti] = nil
			}
		})
	}
	s.Run()
	desc := sc.String()
	if f := vsync.PoolFault(); f != "" {
		return false, "C06/pool-discipline", fmt.Sprintf("scenario %s schedule %v: %s", desc, x.Choices, f), ""
	}
	// (1)
	if s.Deadlock {
		return false, "C06/deadlock", fmt.Sprintf("scenario %s deadlocks under schedule %v", desc, x.Choices), ""
	}
	if p := s.Panics(); len(p) > 0 {
		return false, "C06/panic", fmt.Sprintf("scenario %s schedule %v: %s", desc, x.Choices, p[0]), ""
	}
	if s.Overrun {
		return false, "C06/livelock", fmt.Sprintf("scenario %s exceeded %d scheduling steps", desc, s.MaxSteps), ""
	}
	// (3) and thread-local findings
	for _, r := range recs {
		if r.bad != "" {
			return false, "C06/half-built-or-error/" + r.op.String(), fmt.Sprintf("scenario %s schedule %v: %s", desc, x.Choices, r.bad), ""
		}
	}
	// (4) caller-owned alias arrays
	for _, r := range recs {
		if r.op.kind != opExtend {
			continue
		}
		e := c06Exts[r.op.arg]
		for i, a := range e.aliases {
			if r.backing[i] != a {
				return false, "C06/caller-alias-array-modified", fmt.Sprintf("scenario %s: alias %d of %s was overwritten with %q", desc, i, e.name, r.backing[i]), ""
			}
		}
		for i := r.spareFrom; i < len(r.backing); i++ {
			if r.backing[i] != "<spare>" {
				return false, "C06/caller-alias-spare-capacity-written", fmt.Sprintf("scenario %s schedule %v: the spare capacity of the caller-owned alias slice handed to Extend(%s) was overwritten with %q — a write to memory shared by all readers, performed under the read lock only", desc, x.Choices, e.name, r.backing[i]), ""
			}
		}
	}
	// order of Extends: by write-lock acquisition (fallback: call start)
	var exts []*c06Rec
	for _, r := range recs {
		if r.op.kind == opExtend {
			if r.acq == -1 {
				r.acq, r.rel = r.s0, r.s1
			}
			exts = append(exts, r)
		}
	}
	sort.SliceStable(exts, func(i, j int) bool { return exts[i].acq < exts[j].acq })
	var sets []*c06Rec
	for _, r := range recs {
		if r.op.kind == opSetLimit {
			sets = append(sets, r)
		}
	}
	// (5) final tree and limit
	final := mimetype.VerifNodes()
	for _, e := range exts {
		found := 0
		for _, n := range final {
			if n.Name == c06Exts[e.op.arg].name {
				found++
			}
		}
		expect := 0
		for _, e2 := range exts {
			if e2.op.arg == e.op.arg {
				expect++
			}
		}
		if found != expect {
			return false, "C06/lost-or-duplicated-extension", fmt.Sprintf("scenario %s schedule %v: after all calls returned, extension %s occurs %d times in the tree (registered %d times)", desc, x.Choices, c06Exts[e.op.arg].name, found, expect), ""
		}
	}
	// children order under each parent = reverse lock order
	{
		want := map[string][]string{}
		for _, e := range exts {
			p := strings.TrimPrefix(e.result, "attached-to-")
			if e.result == "" || p == "root" {
				p = "application/octet-stream"
			}
			want[p] = append([]string{c06Exts[e.op.arg].name}, want[p]...)
		}
		for p, names := range want {
			var got []string
			for _, n := range final {
				if n.Name == p && (p != "application/octet-stream" || n.Parent == -1) {
					for _, ci := range n.Children {
						if strings.HasPrefix(final[ci].Name, "x/r") {
							got = append(got, final[ci].Name)
						}
					}
					break
				}
			}
			if strings.Join(got, ",") != strings.Join(names, ",") {
				return false, "C06/extension-order", fmt.Sprintf("scenario %s schedule %v: children of %s are %v, lock order prescribes %v", desc, x.Choices, p, got, names), ""
			}
		}
	}
	finalLimit := mimetype.VerifLimit()
	{
		okL := len(sets) == 0 && finalLimit == 3072
		for _, a := range sets {
			overwritten := false
			for _, b := range sets {
				if b != a && b.s0 > a.s1 {
					overwritten = true
				}
			}
			if !overwritten && c06Limit(a.op.arg) == finalLimit {
				okL = true
			}
		}
		if !okL {
			return false, "C06/final-limit", fmt.Sprintf("scenario %s schedule %v: final limit %d is not the value of a last SetLimit", desc, x.Choices, finalLimit), ""
		}
	}
	// (6) pooled objects and tree are sane after the join: the C03 oracle on the final state
	var post []string
	for i := range c06Inputs {
		post = append(post, chainStr(mimetype.Detect(c06Inputs[i])))
	}
	// (2) every detection result is a sequential answer for an admissible (limit, extension set)
	var obs []string
	for _, r := range recs {
		obs = append(obs, fmt.Sprintf("%d.%d=%s", r.thread, r.idx, r.result))
		if r.op.kind != opDetect && r.op.kind != opReader && r.op.kind != opPipeReader {
			continue
		}
		// admissible limits
		var Ls []uint32
		initialOK := true
		for _, a := range sets {
			if a.s1 < r.s0 {
				initialOK = false
			}
		}
		if initialOK {
			Ls = append(Ls, 3072)
		}
		for _, a := range sets {
			if a.s0 > r.s1 {
				continue
			}
			dead := false
			for _, b := range sets {
				if b != a && b.s0 > a.s1 && b.s1 < r.s0 {
					dead = true
				}
			}
			if !dead {
				Ls = append(Ls, c06Limit(a.op.arg))
			}
		}
		lo, hi := 0, 0
		for _, e := range exts {
			if e.rel < r.s0 {
				lo++
			}
			if e.acq <= r.s1 {
				hi++
			}
		}
		ok := false
		var tried []string
		for _, L := range Ls {
			for p := lo; p <= hi; p++ {
				a := c06Seq(r.op.arg, L, exts[:p])
				tried = append(tried, fmt.Sprintf("limit %d, %d ext: %s", L, p, a))
				if a == r.result {
					ok = true
				}
			}
		}
		if !ok {
			return false, "C06/result-not-sequential/" + r.op.String(), fmt.Sprintf("scenario %s schedule %v: %s by thread %d returned %s; no sequential execution with a limit and extension set in force during the call returns that (admissible: %s)", desc, x.Choices, r.op, r.thread, r.result, strings.Join(tried, " | ")), ""
		}
	}
	for i := range c06Inputs {
		if want := c06Seq(i, finalLimit, exts); want != post[i] {
			return false, "C06/state-corrupted-after-join", fmt.Sprintf("scenario %s schedule %v: after all calls returned Detect(in%d) = %s, sequential answer %s", desc, x.Choices, i, post[i], want), ""
		}
	}
	sort.Strings(obs)
	return true, "", "", strings.Join(obs, ";")
}

// c06PoolEval (part P): one input through Detect and DetectReader at three
// limits on a single goroutine, under the pool-tracking shim. In: the input.
func c06PoolEval(cs *core.Case) (bool, string, string) {
	sched.Active = &seqHooks{}
	defer func() { sched.Active = nil }()
	vsync.ResetPools()
	for _, l := range []uint32{0, 3072, uint32(len(cs.In) / 2)} {
		for entry := 0; entry < 2; entry++ {
			if entry == 0 {
				detect(cs.In, l)
			} else {
				setLimit(l)
				mimetype.DetectReader(bytes.NewReader(cs.In))
			}
			if f := vsync.PoolFault(); f != "" {
				return false, "C06/pool-discipline", fmt.Sprintf("detecting %s (limit %d, entry %d): %s", quoteShort(cs.In), l, entry, f)
			}
			for _, p := range vsync.AllPools() {
				idle := p.Idle()
				for i := range idle {
					for j := i + 1; j < len(idle); j++ {
						if reflect.ValueOf(idle[i]).Kind() == reflect.Ptr && idle[i] == idle[j] {
							return false, "C06/pool-discipline", fmt.Sprintf("after detecting %s (limit %d): the same object is idle twice in a pool", quoteShort(cs.In), l)
						}
					}
				}
			}
		}
	}
	return true, "", ""
}

// c06Eval: Ints = scenario encoding, -1, choices
func c06Eval(cs *core.Case) (ok bool, sig, msg string) {
	sc, choices := c06Decode(cs.Ints)
	explore.Replay(choices, func(x *explore.Exec) bool {
		ok, sig, msg, _ = c06Exec(x, sc)
		return ok
	})
	return
}

// c06RaceEval: Ints = scenario encoding; runs the race-built worker.
func c06RaceEval(cs *core.Case) (bool, string, string) {
	sc, _ := c06Decode(append(append([]int{}, cs.Ints...), -1))
	dir := os.Getenv("VERIF_WORKER_DIR")
	bin := filepath.Join(dir, "worker-race")
	if _, err := os.Stat(bin); err != nil {
		return true, "skip-no-race-binary", ""
	}
	args := []string{"C06", "--sub", "race", "--"}
	for _, v := range cs.Ints {
		args = append(args, strconv.Itoa(v))
	}
	out, err, hung := runChild(5*time.Minute, append(os.Environ(), "GORACE=halt_on_error=1 exitcode=66", "GOMAXPROCS=8"), bin, args...)
	if hung {
		return false, "C06/free-running-pass-never-returns", fmt.Sprintf("scenario %s, run freely (20 repetitions) under the race detector, did not finish within 5 minutes (normally a few seconds): some call never returns (deadlock). Output: %s", sc, firstLines(out, 6))
	}
	if strings.Contains(out, "WARNING: DATA RACE") {
		where := ""
		for _, l := range strings.Split(out, "\n") {
			if strings.Contains(l, "/mimetype/") && strings.Contains(l, ".go:") && !strings.Contains(l, "verifx") && !strings.Contains(l, "zz_verif") {
				where = strings.TrimSpace(l)
				if i := strings.LastIndex(where, "/"); i >= 0 {
					where = where[i+1:]
				}
				if i := strings.Index(where, " "); i >= 0 {
					where = where[:i]
				}
				break
			}
		}
		return false, "C06/data-race/" + where, fmt.Sprintf("scenario %s, free-running under the race detector: %s", sc, firstLines(out, 14))
	}
	if err != nil {
		return false, "C06/race-run-failed", fmt.Sprintf("scenario %s: race-built worker failed: %v: %s", sc, err, firstLines(out, 6))
	}
	return true, "", ""
}

// c06RaceChild runs the scenario bodies R times on real goroutines.
func c06RaceChild(c *core.Ctx, args []string) int {
	var v []int
	for _, a := range args {
		x, _ := strconv.Atoi(a)
		v = append(v, x)
	}
	sc, _ := c06Decode(append(v, -1))
	mimetype.VerifSnapshot()
	for rep := 0; rep < 20; rep++ {
		mimetype.VerifRestore()
		mimetype.SetLimit(3072)
		var wg sync.WaitGroup
		start := make(chan struct{})
		for ti, ops := range sc {
			if len(ops) > 0 && ops[0].kind == opPrelude {
				for i, o := range ops[1:] {
					r := &c06Rec{thread: ti, idx: i, op: o}
					c06DoOp(r, func() int { return 0 }, func(string) {})
				}
				continue
			}
			wg.Add(1)
			go func(ti int, ops []c06Op) {
				defer wg.Done()
				<-start
				for i, o := range ops {
					r := &c06Rec{thread: ti, idx: i, op: o}
					c06DoOp(r, func() int { return 0 }, func(string) {})
				}
			}(ti, ops)
		}
		close(start)
		wg.Wait()
	}
	fmt.Println("race-run-complete")
	return 0
}

func c06Setup(c *core.Ctx) {
	c06ctx = c
	c.Register("c06stress", c06StressEval)
	c.Register("c06pool", c06PoolEval)
	c.Register("c06", c06Eval)
	c.Register("c06race", c06RaceEval)
}

func c06Scenarios(thorough bool) []c06Scenario {
	D := func(i int) c06Op { return c06Op{opDetect, i} }
	R := func(i int) c06Op { return c06Op{opReader, i} }
	RP := func(i int) c06Op { return c06Op{opPipeReader, i} }
	L := func(i int) c06Op { return c06Op{opLookup, i} }
	S := func(v int) c06Op { return c06Op{opSetLimit, v} }
	E := func(i int) c06Op { return c06Op{opExtend, i} }
	T := func(ops ...c06Op) []c06Op { return ops }
	P := func(ops ...c06Op) []c06Op { return append([]c06Op{{opPrelude, 0}}, ops...) }
	curated := []c06Scenario{
		{P(E(0)), T(L(1)), T(L(2))},
		{P(E(0)), T(L(1), L(2)), T(L(2), L(0))},
		{P(E(0), E(2)), T(L(1)), T(D(2))},
		{P(E(1)), T(L(4)), T(L(5)), T(L(0))},
		{P(E(0)), T(D(2)), T(D(2))},
		{P(S(8)), T(D(3)), T(S(3072))},
		// a reader on a pipe: its Read returns only after the other goroutines'
		// calls have returned (nothing may be held across the call into the reader)
		{T(RP(2)), T(E(0))},
		{T(RP(2)), T(D(2))},
		{T(RP(3)), T(S(8), E(0))},
		{T(RP(0)), T(L(0), E(1))},
		{T(RP(2)), T(E(0)), T(D(2))},
		// readers only: calls that touch the same pooled or lazily built shared state
		{T(D(2)), T(D(3))},
		{T(D(2)), T(D(2))},
		{T(D(4)), T(D(4))},
		{T(D(4)), T(R(2))},
		{T(D(6)), T(D(0)), T(D(7))},
		{P(S(8)), T(D(6)), T(S(3072))},
		{P(S(8)), T(R(6)), T(S(3072))},
		{P(S(8)), T(R(6)), T(S(0))},
		{T(R(7)), T(S(5))},
		{P(S(5)), T(R(7)), T(S(3072))},
		{T(D(7)), T(S(5))},
		{T(D(6), D(7)), T(S(8), S(5))},
		{T(D(2)), T(E(0))},
		{T(D(2)), T(E(1))},
		{T(D(2), D(2)), T(E(0))},
		{T(D(3)), T(S(8))},
		{T(R(3)), T(S(8))},
		{T(D(3)), T(S(8), S(0))},
		{T(D(3), D(3)), T(S(8))},
		{T(E(0)), T(E(0 + 1))},
		{T(E(0)), T(E(2))},
		{T(E(0), E(2)), T(D(2))},
		{T(E(0)), T(E(1)), T(D(2))},
		{T(L(1)), T(E(0))},
		{T(L(2)), T(E(0))},
		{T(L(1), L(1)), T(E(0))},
		{T(E(0), L(1)), T(L(2))},
		{T(E(0), L(0)), T(L(0))},
		{T(E(1), L(4)), T(L(5))},
		{T(L(3)), T(L(3))},
		{T(D(0)), T(D(0))},
		{T(D(0)), T(D(1))},
		{T(D(1)), T(D(1))},
		{T(D(0), D(1)), T(D(1), D(0))},
		{T(D(4)), T(D(0))},
		{T(D(5)), T(E(0))},
		{T(D(0)), T(E(1)), T(S(8))},
		{T(D(2)), T(E(0)), T(S(0))},
		{T(R(2)), T(E(0))},
		{T(R(3)), T(S(8)), T(S(0))},
		{T(E(0)), T(E(1)), T(E(2))},
		{T(S(8)), T(S(0))},
		{T(S(8), D(3)), T(S(3072), D(3))},
		{T(E(0), D(2)), T(E(1), D(2))},
		{T(L(1)), T(L(2)), T(E(0))},
		{T(E(0), L(2)), T(E(2), L(1))},
		{T(D(2), L(1)), T(E(0), S(8))},
		{T(D(3), S(0)), T(D(3), S(8))},
	}
	if !thorough {
		return curated
	}
	alphabet := []c06Op{D(0), D(1), D(2), D(3), D(6), D(7), R(3), R(6), R(7), L(0), L(1), L(2), S(8), S(5), S(0), E(0), E(1), E(2)}
	isWriter := func(o c06Op) bool { return o.kind == opSetLimit || o.kind == opExtend }
	// registering the same name twice is outside the statement (extension names are fresh)
	dupExt := func(ops ...c06Op) bool {
		seen := map[int]bool{}
		for _, o := range ops {
			if o.kind == opExtend {
				if seen[o.arg] {
					return true
				}
				seen[o.arg] = true
			}
		}
		return false
	}
	out := append([]c06Scenario{}, curated...)
	// all 2-thread scenarios: one op versus one or two ops, at least one writer
	for _, a := range alphabet {
		for _, b := range alphabet {
			if (isWriter(a) || isWriter(b)) && !dupExt(a, b) {
				out = append(out, c06Scenario{T(a), T(b)})
			}
			for _, b2 := range alphabet {
				if (isWriter(a) || isWriter(b) || isWriter(b2)) && !dupExt(a, b, b2) {
					out = append(out, c06Scenario{T(a), T(b, b2)})
				}
			}
		}
	}
	// all reader-reader pairs (pools, lazily built caches)
	for i, a := range alphabet {
		for _, b := range alphabet[i:] {
			if !isWriter(a) && !isWriter(b) {
				out = append(out, c06Scenario{T(a), T(b)})
			}
		}
	}
	// all 3-thread scenarios with one op each, at least one writer (unordered)
	for i, a := range alphabet {
		for j := i; j < len(alphabet); j++ {
			for k := j; k < len(alphabet); k++ {
				b, cc := alphabet[j], alphabet[k]
				if (isWriter(a) || isWriter(b) || isWriter(cc)) && !dupExt(a, b, cc) {
					out = append(out, c06Scenario{T(a), T(b), T(cc)})
				}
			}
		}
	}
	return out
}

func c06Run(c *core.Ctx) {
	scs := c06Scenarios(c.Thorough())
	// quick: 50 curated scenarios, bound 3, all interleavings for <= 3 operations;
	// thorough: the full cross product (thousands of scenarios), bound 3, all
	// interleavings for <= 2 operations (bound 4 over the cross product does not
	// finish within the tier budget: measured 1.3e8 executions in 45 minutes)
	bound := 3
	unboundedOps := 3
	if c.Thorough() {
		unboundedOps = 2
	}
	c.Info("scenarios", fmt.Sprint(len(scs)))
	c.Info("preemption_bound", fmt.Sprint(bound))
	cs := &core.Case{Kind: "c06"}
	rc := &core.Case{Kind: "c06race"}
	var execs, points uint64
	unboundedDone, capped := 0, 0
	for _, sc := range scs {
		if !c.Next() || c.Expired() {
			continue
		}
		outcomes := map[string]bool{}
		run := func(b int, maxExec uint64) explore.Stats {
			return explore.Run(b, maxExec, func(x *explore.Exec) bool {
				ok, _, _, obs := c06Exec(x, sc)
				c.R.Traces++
				if !ok {
					c.R.Traces--
					cs.Ints = append(append(sc.encode(), -1), x.Choices...)
					c.Check(cs)
					return false
				}
				outcomes[obs] = true
				return true
			})
		}
		st := run(bound, 300000)
		if st.Truncated {
			c.Cap(fmt.Sprintf("schedule-cap-300000-at-bound-%d", bound))
			capped++
		}
		// tiny scenarios: all interleavings
		ops := 0
		for _, t := range sc {
			ops += len(t)
		}
		if ops <= unboundedOps && !st.Truncated {
			st2 := run(-1, 150000)
			if !st2.Truncated {
				unboundedDone++
			}
			st.Executions += st2.Executions
			st.Points += st2.Points
		}
		execs += st.Executions
		points += st.Points
		c.R.States += st.Executions
		c.R.Evals += st.Executions
		c.R.Transitions += st.Points + st.Executions
		if len(outcomes) > 1 {
			c.R.Nontrivial++ // scenarios in which the schedule changes what is observed
		}
		c.Sample("scenario", map[string]any{"scenario": sc.String(), "executions": st.Executions, "distinct_outcomes": len(outcomes), "bound": bound})
		// Part B
		rc.Ints = sc.encode()
		c.R.Evals++
		c.Check(rc)
	}
	// Part P: pool discipline over the whole corpus and the C04 operation menu
	// (deterministic; the consequence of a fault is two goroutines sharing one
	// scratch object, which part B can only sample)
	{
		pc := &core.Case{Kind: "c06pool"}
		var n uint64
		try := func(data []byte) {
			if len(data) > 1<<16 || !c.Next() || c.Expired() {
				return
			}
			pc.In = data
			c.R.Evals++
			c.R.States++
			c.R.Transitions += 6
			n++
			c.Check(pc)
		}
		for _, w := range corpus(c) {
			try(w.Data)
		}
		for _, o := range c04OpsGet() {
			try(o.data)
		}
		for _, in := range c06Inputs {
			try(in)
		}
		c.Note("P.inputs-under-pool-discipline", n)
	}
	// Part B, second half: every witness, every registered name, 8 goroutines
	for v := 0; v < 2; v++ {
		if c.Mine(uint64(v)) {
			sc := &core.Case{Kind: "c06stress", Ints: []int{v}}
			c.R.Evals++
			c.R.Transitions++
			c.Check(sc)
			c.Sample("race-stress", map[string]any{"variant": v, "goroutines": 8, "inputs": "every witness <= 8 KiB, every registered name and alias"})
		}
	}
	c.Note("schedules-executed", execs)
	c.Note("scheduling-decisions", points)
	c.Note("scenarios-explored-without-preemption-bound", uint64(unboundedDone))
	c.Note("scenarios-capped", uint64(capped))
}
