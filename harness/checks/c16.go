package checks

import (
	"bytes"
	"context"
	"fmt"
	"os"
	"os/exec"
	"runtime/debug"
	"strconv"
	"strings"
	"time"

	"github.com/gabriel-vasile/mimetype"
	"github.com/gabriel-vasile/mimetype/internal/verifx/core"
)

// C16 — nesting bombs cannot exhaust the stack.
//
// Every (shape, depth, limit mode, entry point) combination runs in a child
// process that first calls debug.SetMaxStack(16 MiB). A Go stack overflow is
// fatal and unrecoverable, so the death of the child is the observation.
func init() {
	Registry["C16"] = &Check{Setup: c16Setup, Run: c16Run}
	subs["bomb"] = bombChild
}

var c16Shapes = []struct {
	name, open, close string
	wide              bool // not a tower: `depth` members / elements on ONE level
}{
	{"arrays", "[", "]", false},
	{"objects", `{"k":`, "}", false},
	{"mixed", `[{"k":`, "}]", false},
	{"spaced-arrays", " [ ", " ] ", false},
	{"obj-arr", `{"a":[`, "]}", false},
	{"objects-space-after-colon", `{"k": `, "}", false},
	{"objects-ws-everywhere", "{ \"k\" :\r\n\t", " } ", false},
	// the nested child is not the first member / element of its parent
	{"second-member", `{"a":0,"b":`, "}", false},
	{"second-element", "[0,", "]", false},
	{"after-siblings", `{"a":[],"b":{},"c":"s","d":`, "}", false},
	// flat but very long: the stack must not grow with the number of members
	{"wide-object", `"a":0`, "", true},
	{"wide-array", `0`, "", true},
	{"wide-object-of-arrays", `"a":[1,{"b":2}]`, "", true},
}

// bombInput: lead 0 none, 1 = 1 KiB of whitespace, 2 = the tower is the second
// element of an array that starts with a scalar, 3 = the tower is the value of a
// later member of an object whose first members are a scalar and an array,
// 4 = the tower follows a wide flat object (5000 members) inside an array.
func bombInput(shape, depth int, closed bool, lead int) []byte {
	s := c16Shapes[shape]
	var sb bytes.Buffer
	tail := ""
	switch lead {
	case 1:
		sb.Write(bytes.Repeat([]byte(" \n\t "), 256))
	case 2:
		sb.WriteString("[0,")
		tail = "]"
	case 3:
		sb.WriteString(`{"a":0,"b":[1,2],"k":`)
		tail = "}"
	case 4:
		sb.WriteString(`[{"m":0`)
		sb.Write(bytes.Repeat([]byte(`,"m":0`), 4999))
		sb.WriteString("},")
		tail = "]"
	}
	sb.Grow(depth*(len(s.open)+len(s.close)+1) + 8)
	if s.wide {
		op, cl := byte('{'), byte('}')
		if s.open[0] != '"' {
			op, cl = '[', ']'
		}
		sb.WriteByte(op)
		for i := 0; i < depth; i++ {
			if i > 0 {
				sb.WriteByte(',')
			}
			sb.WriteString(s.open)
		}
		if closed {
			sb.WriteByte(cl)
			sb.WriteString(tail)
		}
		return sb.Bytes()
	}
	for i := 0; i < depth; i++ {
		sb.WriteString(s.open)
	}
	if closed {
		if strings.HasSuffix(strings.TrimSpace(s.open), ":") {
			sb.WriteString("1")
		}
		for i := 0; i < depth; i++ {
			sb.WriteString(s.close)
		}
		sb.WriteString(tail)
	}
	return sb.Bytes()
}

// bombChild: args = shape depth closed lead limitmode entry (0 Detect, 1 DetectReader, 2 Detect after a history of JSON detections)
// limitmode: 0 => limit 0; 1 => 2^32-1; 2 => len; 3 => len+1
func bombChild(c *core.Ctx, args []string) int {
	debug.SetMaxStack(16 << 20)
	iv := make([]int, len(args))
	for i, a := range args {
		iv[i], _ = strconv.Atoi(a)
	}
	in := bombInput(iv[0], iv[1], iv[2] == 1, iv[3])
	var limit uint32
	switch iv[4] {
	case 1:
		limit = 1<<32 - 1
	case 2:
		limit = uint32(len(in))
	case 3:
		limit = uint32(len(in) + 1)
	}
	mimetype.SetLimit(limit)
	var m *mimetype.MIME
	if iv[5] == 2 {
		// entry 2: the process has a history of ordinary detections (they leave
		// their parser state in the pool) before the bomb arrives
		for _, d := range []string{`{"a":1}`, `{"type":"Feature","geometry":null}`, `[1,[2,[3]]]`, "{\"a\":1}\n{\"b\":2}\n", `{"log":{"version":"1.2"}}`, `{"a":`} {
			mimetype.Detect([]byte(d))
		}
	}
	if iv[5] == 0 || iv[5] == 2 {
		m = mimetype.Detect(in)
	} else {
		var err error
		if limit == 1<<32-1 {
			mimetype.SetLimit(uint32(len(in) + 7)) // a reader allocates `limit` bytes; keep it near the input size
		}
		m, err = mimetype.DetectReader(bytes.NewReader(in))
		if err != nil {
			fmt.Println("ERROR", err)
			return 3
		}
	}
	fmt.Printf("RESULT %s json=%v len=%d\n", m.String(), jsonFamily(m), len(in))
	return 0
}

func c16Setup(c *core.Ctx) {
	c.Register("c16", func(cs *core.Case) (bool, string, string) {
		return c16RunChild(c, cs)
	})
}

// c16RunChild: Ints = shape depth closed lead limitmode entry
func c16RunChild(c *core.Ctx, cs *core.Case) (bool, string, string) {
	self, _ := os.Executable()
	args := []string{c.Property, "--sub", "bomb", "--"}
	for _, v := range cs.Ints {
		args = append(args, strconv.Itoa(v))
	}
	ctx, cancel := context.WithTimeout(context.Background(), 15*time.Minute)
	defer cancel()
	cmd := exec.CommandContext(ctx, self, args...)
	var ob bytes.Buffer
	cmd.Stdout, cmd.Stderr = &ob, &ob
	err := cmd.Run()
	out := ob.String()
	shape := c16Shapes[cs.Ints[0]].name
	desc := fmt.Sprintf("shape=%s depth=%d closed=%d lead=%d limitmode=%d entry=%d", shape, cs.Ints[1], cs.Ints[2], cs.Ints[3], cs.Ints[4], cs.Ints[5])
	if ctx.Err() != nil {
		return true, "timeout", "" // not a wall-clock oracle; reported as a cap by the caller
	}
	if err != nil || !strings.Contains(out, "RESULT ") {
		kind := "child-died"
		if strings.Contains(out, "stack overflow") || strings.Contains(out, "goroutine stack exceeds") {
			kind = "stack-overflow"
		}
		return false, "C16/" + kind + "/" + shape, fmt.Sprintf("%s: child process died (%v): %s", desc, err, firstLines(out, 4))
	}
	isJSON := strings.Contains(out, "json=true")
	depth, closed, lm := cs.Ints[1], cs.Ints[2] == 1, cs.Ints[4]
	if closed && depth <= 4096 && !isJSON {
		// C08 ties in: a closed nesting within the cap is JSON (every shape nests at most 2 levels per repetition)
		per := 1
		if shape == "mixed" || shape == "obj-arr" {
			per = 2
		}
		if depth*per+1 <= 4096 {
			return false, "C16/within-cap-not-json/" + shape, fmt.Sprintf("%s: closed nesting within the cap is not reported as JSON: %s", desc, strings.TrimSpace(out))
		}
	}
	if c16Shapes[cs.Ints[0]].wide {
		// one nesting level whatever the length: a closed document is JSON
		if closed && !isJSON {
			return false, "C16/wide-flat-document-not-json/" + shape, fmt.Sprintf("%s: a flat document of %d members is not reported as JSON: %s", desc, depth, strings.TrimSpace(out))
		}
		return true, "", strings.TrimSpace(out)
	}
	if depth >= 8192 && isJSON {
		return false, "C16/beyond-cap-still-json/" + shape, fmt.Sprintf("%s: nesting far beyond the cap is reported as JSON (limit mode %d): %s", desc, lm, strings.TrimSpace(out))
	}
	return true, "", strings.TrimSpace(out)
}

func firstLines(s string, n int) string {
	l := strings.Split(s, "\n")
	if len(l) > n {
		l = l[:n]
	}
	return strings.Join(l, " | ")
}

func c16Run(c *core.Ctx) {
	depths := []int{1, 2, 100, 4095, 4096, 4097, 4098, 8192, 10000, 100000, 1000000, 10000000}
	if c.Thorough() {
		depths = append(depths, 30000000)
	}
	c.Info("depths", fmt.Sprint(depths))
	c.Info("max_stack", "16 MiB (debug.SetMaxStack in the child)")
	cs := &core.Case{Kind: "c16", Ints: make([]int, 6)}
	for si := range c16Shapes {
		for _, d := range depths {
			for closed := 0; closed <= 1; closed++ {
				for lead := 0; lead <= 4; lead++ {
					for lm := 0; lm < 4; lm++ {
						for entry := 0; entry <= 2; entry++ {
							if entry == 2 && (lm != 0 || lead != 0 || d < 4097) {
								continue // the history variant: limit 0, plain towers beyond the cap
							}
							if d >= 1000000 && !c.Thorough() {
								// quick: the largest bombs only in the modes the statement names
								if lm > 1 || lead == 1 || (entry == 1 && lm != 0) || (d > 1000000 && (si == 3 || si == 4 || (si >= 7 && !c16Shapes[si].wide))) || (lead >= 2 && (lm != 0 || entry == 1)) {
									continue
								}
							}
							if d >= 1000000 && lead == 1 {
								continue
							}
							if lead >= 2 && !c.Thorough() && (lm == 3 || (entry == 1 && lm != 0)) {
								continue
							}
							if !c.Next() || c.Expired() {
								continue
							}
							cs.Ints[0], cs.Ints[1], cs.Ints[2], cs.Ints[3], cs.Ints[4], cs.Ints[5] = si, d, closed, lead, lm, entry
							c.R.States++
							c.R.Transitions++
							c.R.Evals++
							if d > 4096 {
								c.R.Nontrivial++
							}
							c.Check(cs)
							c.SampleCase(c16Shapes[si].name, cs)
						}
					}
				}
			}
		}
	}
}
