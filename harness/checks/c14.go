package checks

import (
	"time"
	"bytes"
	"fmt"
	"os"
	"path/filepath"
	"strconv"
	"strings"

	"github.com/gabriel-vasile/mimetype"
	"github.com/gabriel-vasile/mimetype/internal/verifx/core"
)

// C14 — extensions take priority, stay inside their parent, and disturb
// nothing else.
//
// Explicit-state search over Extend histories on the real tree. One Extend =
// (attachment point, predicate, alias count); histories of depth <= 2 (quick) /
// 3 (thorough), every one of them. A state is built by restoring the pristine
// tree and replaying the history (never by cloning). In every state, for every
// probe: (1) Detect == first-match walk of the model tree in which Extend
// prepends (same trace-conformance oracle as C03); inputs rejected by every
// extension predicate answer exactly as in the pristine state; (2) Lookup of
// every extension name and alias returns the registered node with the right
// parent; (3) results obtained before the last Extend are unaffected by it;
// the reader and file entry points agree with Detect in every state;
// (4) thorough: histories replayed in a fresh process through the public API
// only must give the same answers.
func init() {
	Registry["C14"] = &Check{Setup: c14Setup, Run: c14Run}
	subs["c14fresh"] = c14Fresh
}

var c14Probes [][]byte

func c14ProbeSet(c *core.Ctx) [][]byte {
	if c14Probes != nil {
		return c14Probes
	}
	want := map[string]bool{}
	for _, n := range []string{"zip", "docx", "jar", "json", "geojson", "har", "gltf", "ndjson", "csv", "html", "xml", "rss", "svg", "png", "apng", "pdf", "txt", "php", "gif", "tar", "ole", "doc", "mp4", "utf8"} {
		want[n] = true
	}
	ps := [][]byte{nil, []byte("foo"), []byte("foobar baz"), []byte("{}"), []byte(" {\"a\":1}"), []byte("{ not json"), []byte("\x00"), []byte("foo\x00bar"), []byte("PK\x03\x04"), []byte("PK\x03\x04foo"),
		[]byte("plain text"), []byte("fo"), []byte("{\"type\":\"Feature\"}"), []byte("%PDF-1.7"), []byte("\x89PNG\x0d\x0a\x1a\x0a"), []byte("<?xml version=\"1.0\"?><a/>"), []byte("[1,2]"), []byte("a,b\n1,2\n")}
	for _, w := range corpus(c) {
		short := strings.TrimPrefix(w.Name, "synth/")
		if i := strings.IndexAny(short, " -"); i > 0 {
			short = short[:i]
		}
		if (want[short] || strings.HasPrefix(w.Name, "synth/ooxml") || strings.HasPrefix(w.Name, "synth/odf-application/epub")) && len(w.Data) < 3000 {
			ps = append(ps, w.Data)
		}
	}
	c14Probes = ps
	return ps
}

var c14Limits = []uint32{0, 3072, 2}

func opFromInt(v int) extOp {
	return extOp{NoExt: v >= 160000, ExtXML: v%160000 >= 80000, AliasBuiltin: v%80000 >= 40000, Same: v%40000 >= 20000, Dup: v%20000 >= 10000, Attach: (v % 10000) / 100, Pred: (v / 10) % 10, Aliases: v % 10}
}
func opToInt(o extOp) int {
	v := o.Attach*100 + o.Pred*10 + o.Aliases
	if o.Dup {
		v += 10000
	}
	if o.Same {
		v += 20000
	}
	if o.AliasBuiltin {
		v += 40000
	}
	if o.ExtXML {
		v += 80000
	}
	if o.NoExt {
		v += 160000
	}
	return v
}

var c14Cur *treeModel

var c14FileDir string
var c14Files = map[int]string{}

// c14ProbeFile returns the path of a file holding probe k (written once per
// worker into a private temporary directory, removed by c14Cleanup).
func c14ProbeFile(k int, p []byte) string {
	if path, ok := c14Files[k]; ok {
		return path
	}
	if c14FileDir == "" {
		d, err := os.MkdirTemp("", "verif-c14-")
		if err != nil {
			return ""
		}
		c14FileDir = d
	}
	path := filepath.Join(c14FileDir, fmt.Sprintf("probe-%d", k))
	if os.WriteFile(path, p, 0o600) != nil {
		path = ""
	}
	c14Files[k] = path
	return path
}

func c14Cleanup() {
	if c14FileDir != "" {
		os.RemoveAll(c14FileDir)
		c14FileDir = ""
		c14Files = map[int]string{}
	}
}


// c14State builds the state for a history and checks everything that is
// checked in a state; returns the first failure.
func c14Check(c *core.Ctx, hist []extOp, probes [][]byte, count func(nontrivial bool)) (bool, string, string) {
	if c14Cur != nil && c14Cur.undo != nil {
		c14Cur.undo()
		c14Cur.undo = nil
	}
	// pristine answers
	t := newTree()
	c14Cur = t
	type ans struct{ s string }
	var pristine []string
	for _, p := range probes {
		for _, l := range c14Limits {
			pristine = append(pristine, chainStr(detect(p, l)))
		}
	}
	var kept []*mimetype.MIME
	var keptStr []string
	for k, op := range hist {
		if k == len(hist)-1 {
			// results obtained in the predecessor state are retained ...
			for _, p := range probes {
				m := detect(p, 0)
				kept = append(kept, m)
				keptStr = append(keptStr, chainStr(m))
			}
		}
		t.apply(op)
	}
	// (3) ... and re-inspected after the new Extend
	for i, m := range kept {
		if s := chainStr(m); s != keptStr[i] {
			return false, "C14/earlier-result-changed", fmt.Sprintf("history [%s]: a result obtained before the last Extend read %s and now reads %s", t.hist, keptStr[i], s)
		}
		if !m.Is(bare(m.String())) {
			return false, "C14/earlier-result-changed", "earlier result no longer Is its own type"
		}
	}
	t.wrap()
	// (1)
	i := 0
	for _, p := range probes {
		for _, l := range c14Limits {
			ok, sig, msg, _, leaf := t.checkDetect(p, l)
			if !ok {
				return false, strings.Replace(sig, "C03/", "C14/walk/", 1), msg
			}
			h := header(p, l)
			accepted := false
			for _, pred := range t.preds {
				if pred(h, l) {
					accepted = true
				}
			}
			if count != nil {
				count(accepted)
			}
			// the other entry points perform the same walk over the same tree: the
			// reader (every probe and limit) and the file entry (every probe once)
			// classify exactly as Detect does in this state
			want := chainStr(detectNoTrace(t, p, l))
			rm, rerr := mimetype.DetectReader(bytes.NewReader(p))
			t.trace = t.trace[:0]
			if got := chainStr(rm); rerr != nil || got != want {
				return false, "C14/reader-entry-disagrees", fmt.Sprintf("history [%s]: input %s limit %d: DetectReader gives %s (err %v), Detect gives %s", t.hist, quoteShort(p), l, got, rerr, want)
			}
			if l == c14Limits[1] {
				if path := c14ProbeFile(i/len(c14Limits), p); path != "" {
					fm, ferr := mimetype.DetectFile(path)
					t.trace = t.trace[:0]
					if got := chainStr(fm); ferr != nil || got != want {
						return false, "C14/file-entry-disagrees", fmt.Sprintf("history [%s]: input %s limit %d: DetectFile gives %s (err %v), Detect gives %s", t.hist, quoteShort(p), l, got, ferr, want)
					}
				}
			}
			// an extension that keeps the name of a format is walked like that
			// format: if the header ended on a node of this very name before the
			// calls, the result string (optional parameters included) is the same
			if leaf != nil && !leaf.builtin {
				gs := detectNoTrace(t, p, l).String()
				ps := pristine[i]
				if k := strings.Index(ps, "("); k >= 0 {
					ps = ps[:k]
				}
				if bare(ps) == bare(gs) && ps != gs {
					return false, "C14/same-named-extension-walked-differently", fmt.Sprintf("history [%s]: input %s limit %d ends on the extension %s(%s) and is reported as %q; before the calls the same header ended on the format of that name and was reported as %q", t.hist, quoteShort(p), l, leaf.name, leaf.ext, gs, ps)
				}
			}
			if !accepted {
				if got := chainStr(detectNoTrace(t, p, l)); got != pristine[i] {
					return false, "C14/unrelated-input-reclassified", fmt.Sprintf("history [%s]: input %s limit %d is rejected by every extension detector, yet it is now %s (before the calls: %s)", t.hist, quoteShort(p), l, got, pristine[i])
				}
			} else if leaf != nil && leaf.builtin {
				// accepted by some predicate but not classified under an extension: legitimate
				// only if the extension's parent chain does not accept (model walk decides)
				_ = leaf
			}
			i++
		}
	}
	// (2) Lookup: the node found is the first one in pre-order carrying the name
	// (several extensions may share a name, as several built-ins do)
	for _, e := range t.exts {
		for _, n := range append([]string{e.name}, e.aliases...) {
			m := mimetype.Lookup(n)
			if m == nil {
				return false, "C14/lookup-misses-extension", fmt.Sprintf("history [%s]: Lookup(%q) is nil", t.hist, n)
			}
			want := t.find(n)
			if m.String() != want.name || m.Extension() != want.ext {
				return false, "C14/lookup-wrong-node", fmt.Sprintf("history [%s]: Lookup(%q) = %s(%s), the first node of that name in the tree is %s(%s)", t.hist, n, m.String(), m.Extension(), want.name, want.ext)
			}
			if want.parent == nil {
				// the name is the root's own (an extension registered under the root's MIME string)
				if m.Parent() != nil {
					return false, "C14/lookup-wrong-parent", fmt.Sprintf("history [%s]: Lookup(%q) should be the root, but has parent %s", t.hist, n, m.Parent().String())
				}
				continue
			}
			if m.Parent() == nil || m.Parent().String() != want.parent.name || m.Parent().Extension() != want.parent.ext {
				ps := "<nil>"
				if m.Parent() != nil {
					ps = m.Parent().String() + "(" + m.Parent().Extension() + ")"
				}
				return false, "C14/lookup-wrong-parent", fmt.Sprintf("history [%s]: Lookup(%q).Parent() = %s, attachment point was %s(%s)", t.hist, n, ps, want.parent.name, want.parent.ext)
			}
			if !m.Is(n) {
				return false, "C14/lookup-not-Is", fmt.Sprintf("history [%s]: Lookup(%q) does not satisfy Is(%q)", t.hist, n, n)
			}
		}
	}
	// built-in names are still found
	for _, n := range []string{"application/zip", "text/plain", "application/json", "image/png", "application/x-zip", "application/octet-stream"} {
		if mimetype.Lookup(n) == nil {
			return false, "C14/lookup-lost-builtin", fmt.Sprintf("history [%s]: Lookup(%q) is nil", t.hist, n)
		}
	}
	return true, "", ""
}

func detectNoTrace(t *treeModel, p []byte, l uint32) *mimetype.MIME {
	m := detect(p, l)
	t.trace = t.trace[:0]
	return m
}

// c14Eval: Ints = history (encoded ops)
func c14Eval(cs *core.Case) (bool, string, string) {
	var hist []extOp
	for _, v := range cs.Ints {
		hist = append(hist, opFromInt(v))
	}
	ok, sig, msg := c14Check(c14ctx, hist, c14ProbeSet(c14ctx), nil)
	if !c14InRun {
		c14Cleanup() // replay: nothing is left behind
	}
	return ok, sig, msg
}

var c14InRun bool

var c14ctx *core.Ctx

// c14FreshEval: Ints = history; the same history is replayed in a fresh
// process through the public API only and must give the same answers.
func c14FreshEval(cs *core.Case) (bool, string, string) {
	var hist []extOp
	for _, v := range cs.Ints {
		hist = append(hist, opFromInt(v))
	}
	probes := c14ProbeSet(c14ctx)
	if c14Cur != nil && c14Cur.undo != nil {
		c14Cur.undo()
		c14Cur.undo = nil
	}
	t := newTree()
	c14Cur = t
	for _, op := range hist {
		t.apply(op)
	}
	var mine []string
	for _, p := range probes {
		for _, l := range c14Limits {
			mine = append(mine, chainStr(detect(p, l)))
		}
	}
	self, _ := os.Executable()
	args := []string{"C14", "--sub", "c14fresh", "--home", c14ctx.Home, "--repo", c14ctx.Repo, "--"}
	for _, v := range cs.Ints {
		args = append(args, strconv.Itoa(v))
	}
	out, err, _ := runChild(5*time.Minute, nil, self, args...)
	if err != nil {
		return false, "C14/fresh-process-failed", fmt.Sprintf("fresh process for history %v failed: %v", cs.Ints, err)
	}
	theirs := strings.Split(strings.TrimSpace(out), "\n")
	if len(theirs) != len(mine) {
		return false, "C14/fresh-process-output", fmt.Sprintf("fresh process printed %d answers, expected %d", len(theirs), len(mine))
	}
	for i := range mine {
		if mine[i] != theirs[i] {
			return false, "C14/fresh-process-disagrees", fmt.Sprintf("history [%s]: answer %d in-process (tree restored through the hook) %s, fresh process %s", t.hist, i, mine[i], theirs[i])
		}
	}
	return true, "", ""
}

func c14Fresh(c *core.Ctx, args []string) int {
	var b bytes.Buffer
	prev := ""
	var handle1 *mimetype.MIME
	k := -1 // index among the extensions that entered the tree (as in treeModel.apply)
	for _, a := range args {
		k++
		v, _ := strconv.Atoi(a)
		op := opFromInt(v)
		name, ext := extName(k), fmt.Sprintf(".e%d", k+1)
		if op.ExtXML {
			ext = ".xml"
		}
		if op.NoExt {
			ext = ""
		}
		if op.Dup {
			name = "x/dup"
		}
		var aliases []string
		for i := 0; i < op.Aliases; i++ {
			aliases = append(aliases, fmt.Sprintf("x/e%d-alias%d", k+1, i+1))
		}
		if op.AliasBuiltin && op.Aliases > 0 {
			aliases[0] = "text/html"
		}
		pred := extPreds[op.Pred].f
		if extAttach[op.Attach] == "detached-result" {
			mimetype.Detect([]byte("\x00\x01 no format claims these bytes")).Extend(pred, name, ext, aliases...)
			k-- // not part of the tree: the next extension re-uses this index
			continue
		}
		parentName, target, viaHandle := extTarget(op, prev, handle1)
		if viaHandle {
			parentName = bare(handle1.String())
		}
		if op.Same {
			name = parentName
		}
		if target == nil {
			mimetype.Extend(pred, name, ext, aliases...)
		} else {
			target.Extend(pred, name, ext, aliases...)
		}
		if k == 0 {
			handle1 = mimetype.Lookup(name)
		}
		prev = name
	}
	for _, p := range c14ProbeSet(c) {
		for _, l := range c14Limits {
			b.WriteString(chainStr(detect(p, l)))
			b.WriteByte('\n')
		}
	}
	os.Stdout.Write(b.Bytes())
	return 0
}

func c14Setup(c *core.Ctx) {
	c14ctx = c
	c.Register("c14", c14Eval)
	c.Register("c14fresh", c14FreshEval)
}

func c14Run(c *core.Ctx) {
	c14InRun = true
	defer c14Cleanup()
	probes := c14ProbeSet(c)
	depth := 2
	if c.Thorough() {
		depth = 3
	}
	c.Info("probes", fmt.Sprintf("%d inputs x %d limits", len(probes), len(c14Limits)))
	c.Info("attachments", strings.Join(extAttach, ","))
	c.Info("history_depth", fmt.Sprint(depth))
	var ops []extOp
	for a := range extAttach {
		for p := range extPreds[:8] {
			ops = append(ops, extOp{Attach: a, Pred: p, Aliases: (a + p) % 3})
		}
	}
	c.Info("extend_alphabet", fmt.Sprint(len(ops)))
	cs := &core.Case{Kind: "c14"}
	var hist []extOp
	var rec func()
	rec = func() {
		if len(hist) > 0 {
			if len(hist) >= 2 || c.Mine(uint64(opToInt(hist[0]))) {
				c.R.States++
				ok, _, _ := c14Check(c, hist, probes, func(acc bool) {
					c.R.Transitions++
					c.R.Evals++
					c.R.Traces++
					if acc {
						c.R.Nontrivial++
					}
				})
				if !ok {
					cs.Ints = cs.Ints[:0]
					for _, o := range hist {
						cs.Ints = append(cs.Ints, opToInt(o))
					}
					c.Check(cs)
				}
				if len(hist) <= 2 {
					var hn []string
					for _, o := range hist {
						hn = append(hn, o.String())
					}
					c.Sample(fmt.Sprintf("history-depth-%d", len(hist)), hn)
				}
			}
		}
		if len(hist) == depth {
			return
		}
		for _, o := range ops {
			if len(hist) == 1 && (!c.Next() || c.Expired()) {
				continue
			}
			hist = append(hist, o)
			rec()
			hist = hist[:len(hist)-1]
		}
	}
	rec()
	if !c.Thorough() {
		// quick: additionally every depth-3 history over a reduced alphabet
		// (4 attachment points x 4 predicates)
		var red []extOp
		for _, a := range []int{0, 2, 3, 8} {
			for _, p := range []int{1, 2, 3, 4} {
				red = append(red, extOp{Attach: a, Pred: p, Aliases: (a + p) % 3})
			}
		}
		c.Info("quick_depth3_reduced_alphabet", fmt.Sprint(len(red)))
		for _, o1 := range red {
			for _, o2 := range red {
				if !c.Next() || c.Expired() {
					continue
				}
				for _, o3 := range red {
					hist = []extOp{o1, o2, o3}
					c.R.States++
					ok, _, _ := c14Check(c, hist, probes, func(acc bool) {
						c.R.Transitions++
						c.R.Evals++
						c.R.Traces++
						if acc {
							c.R.Nontrivial++
						}
					})
					if !ok {
						cs.Ints = []int{opToInt(o1), opToInt(o2), opToInt(o3)}
						c.Check(cs)
					}
				}
			}
		}
		hist = nil
	}
	// (3b) a held handle and shared names: ext1 under A (name x/dup), ext2 under B
	// (same name, possibly earlier in pre-order), ext3 registered through the
	// handle to ext1 kept since its registration
	{
		at := []int{0, 2, 3, 7, 4}
		pr := []int{1, 2, 3, 4}
		for _, a1 := range at {
			for _, a2 := range at {
				if !c.Next() || c.Expired() {
					continue
				}
				for _, p1 := range pr {
					for _, p2 := range pr {
						for _, p3 := range pr {
							for _, dup := range []bool{true, false} {
								hist = []extOp{{Attach: a1, Pred: p1, Dup: dup}, {Attach: a2, Pred: p2, Dup: dup, Aliases: 1}, {Attach: 9, Pred: p3}}
								c.R.States++
								ok, _, _ := c14Check(c, hist, probes, func(acc bool) {
									c.R.Transitions++
									c.R.Evals++
									c.R.Traces++
									if acc {
										c.R.Nontrivial++
									}
								})
								if !ok {
									cs.Ints = []int{opToInt(hist[0]), opToInt(hist[1]), opToInt(hist[2])}
									c.Check(cs)
								}
							}
						}
					}
				}
			}
		}
		hist = nil
	}
	// (3c) extensions that keep the MIME string of their attachment point and
	// only add a file extension (as the built-in .aaf does under a namesake of
	// the root): every pair (same-name extension, ordinary extension)
	{
		at := []int{0, 2, 3, 4, 5}
		pr := []int{1, 2, 3, 4, 5, 6}
		for _, a1 := range at {
			for _, p1 := range pr {
				if !c.Next() || c.Expired() {
					continue
				}
				one := []extOp{{Attach: a1, Pred: p1, Same: true, Aliases: p1 % 2}}
				hs := [][]extOp{one, {{Attach: a1, Pred: p1, Aliases: 1, NoExt: true}}, {{Attach: a1, Pred: p1, NoExt: true}, {Attach: 8, Pred: 1, NoExt: true, Aliases: 1}}, {{Attach: a1, Pred: p1, Aliases: 2, AliasBuiltin: true}}, {{Attach: a1, Pred: p1, Aliases: 1, AliasBuiltin: true}, {Attach: 5, Pred: 1}}}
				for _, a2 := range []int{0, 2, 8, 9} {
					for _, p2 := range []int{1, 2, 4} {
						hs = append(hs, []extOp{one[0], {Attach: a2, Pred: p2, Aliases: 1}}, []extOp{{Attach: a2 % 8, Pred: p2}, one[0]})
					}
				}
				for _, h := range hs {
					hist = h
					c.R.States++
					ok, _, _ := c14Check(c, hist, probes, func(acc bool) {
						c.R.Transitions++
						c.R.Evals++
						c.R.Traces++
						if acc {
							c.R.Nontrivial++
						}
					})
					if !ok {
						cs.Ints = nil
						for _, o := range hist {
							cs.Ints = append(cs.Ints, opToInt(o))
						}
						c.Check(cs)
					}
				}
			}
		}
		hist = nil
	}
	// (4) fresh-process replays
	nfresh := 24
	if c.Thorough() {
		nfresh = 200
	}
	fc := &core.Case{Kind: "c14fresh"}
	for i := 0; i < nfresh; i++ {
		if !c.Next() || c.Expired() {
			continue
		}
		a, b, d := ops[(i*7)%len(ops)], ops[(i*13+5)%len(ops)], ops[(i*29+11)%len(ops)]
		fc.Ints = []int{opToInt(a), opToInt(b)}
		if i%3 == 0 {
			fc.Ints = append(fc.Ints, opToInt(d))
		}
		c.R.Evals++
		c.R.Transitions++
		c.Check(fc)
	}
	if c14Cur != nil && c14Cur.undo != nil {
		c14Cur.undo()
	}
}
