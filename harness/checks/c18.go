package checks

import (
	"archive/tar"
	"bytes"
	"crypto/sha1"
	"fmt"
	"strings"
	"time"

	"github.com/gabriel-vasile/mimetype"
	"github.com/gabriel-vasile/mimetype/internal/verifx/core"
)

// C18 — tar detection tracks header checksum validity.
//
// Archives are written by archive/tar over the full product of small menus of
// first-member parameters (format, name, mode, ids, size, type, mtime, owner
// names); every distinct first block is examined pristine (limits 0, 512, 513,
// 3072) and under all 504 x 255 single-byte corruptions outside the checksum
// field.
func init() { Registry["C18"] = &Check{Setup: c18Setup, Run: c18Run} }

// c18Higher is the fixed set of root formats whose signature outranks tar: the
// root children that precede tar in the pinned tree (tree.go:20-21, "tar sits
// after exe/elf/ar and before the remaining root formats"). It is deliberately
// NOT read from the running tree: an archive whose member name happens to start
// with the signature of a format that is supposed to come after tar (BM, ID3,
// BZh, ...) must still be reported as tar.
var c18Higher = map[string]bool{
	"image/x-xpixmap": true, "application/x-7z-compressed": true, "application/zip": true, "application/pdf": true,
	"application/vnd.fdf": true, "application/x-ole-storage": true, "application/postscript": true,
	"image/vnd.adobe.photoshop": true, "application/pkcs7-signature": true, "application/ogg": true, "image/png": true,
	"image/jpeg": true, "image/jxl": true, "image/jp2": true, "image/jpx": true, "image/jpm": true, "image/jxs": true,
	"image/gif": true, "image/webp": true, "application/vnd.microsoft.portable-executable": true, "application/x-elf": true,
	"application/x-archive": true,
}

// rootChildBefore reports whether m's root-level ancestor is one of the formats
// that outrank the target (the "higher-priority signature" exception).
func rootChildBefore(m *mimetype.MIME, target string) bool {
	ch := chain(m)
	if len(ch) < 2 {
		return false
	}
	return c18Higher[ch[len(ch)-2]]
}

// c18PrintableNameMayOutrank: for a member name made of printable ASCII only,
// can the leading bytes of the archive satisfy the signature of one of the
// formats that outrank tar? Written from the format specifications (the other
// higher-priority signatures hold non-printable bytes and cannot be spelled).
func c18PrintableNameMayOutrank(name []byte) bool {
	has := func(off int, s string) bool { return len(name) >= off+len(s) && string(name[off:off+len(s)]) == s }
	for _, p := range []string{"/* XPM */", "%PDF-", "%FDF", "%!PS-Adobe-", "8BPS", "-----BEGIN PKCS7", "GIF87a", "GIF89a", "MZ", "!<arch>", "OggS"} {
		if has(0, p) {
			return true
		}
	}
	if has(0, "RIFF") && has(8, "WEBP") {
		return true
	}
	if (has(4, "jP  ") || has(4, "jP2 ")) && (has(20, "jp2 ") || has(20, "jpx ") || has(20, "jpm ")) {
		return true
	}
	return false
}

func c18PosEval(cs *core.Case) (bool, string, string) {
	m := detect(cs.In, cs.Limit)
	if bare(m.String()) == "application/x-tar" {
		return true, "", ""
	}
	if rootChildBefore(m, "application/x-tar") {
		// the exception is only granted to a printable member name if that name
		// can really spell a higher-priority signature
		name := cs.In[:100]
		if i := bytes.IndexByte(name, 0); i >= 0 {
			name = name[:i]
		}
		printable := len(name) > 0
		for _, b := range name {
			if b < 0x20 || b > 0x7e {
				printable = false
			}
		}
		if !printable || c18PrintableNameMayOutrank(name) {
			return true, "exception", ""
		}
		return false, "C18/tar-claimed-by-unsatisfied-signature/" + cs.Strs[0], fmt.Sprintf("archive written by archive/tar (%s) limit %d is reported as %s, but its leading bytes (member name %q) do not satisfy that format's signature", cs.Strs[1], cs.Limit, chainStr(m), name)
	}
	return false, "C18/tar-not-recognised/" + cs.Strs[0], fmt.Sprintf("archive written by archive/tar (%s; first block %s) limit %d is reported as %s", cs.Strs[1], core.Quote(cs.In[:min2(len(cs.In), 160)]), cs.Limit, chainStr(m))
}

func min2(a, b int) int {
	if a < b {
		return a
	}
	return b
}

func c18NegEval(cs *core.Case) (bool, string, string) {
	m := detect(cs.In, cs.Limit)
	if bare(m.String()) == "application/x-tar" {
		return false, "C18/corrupted-block-still-tar", fmt.Sprintf("first block with byte %d changed to 0x%02X (outside the checksum field) is still reported as application/x-tar; block %s", cs.Ints[0], cs.Ints[1], core.Quote(cs.In[:160]))
	}
	return true, "", ""
}

// c18ChksumLayouts: ways in which conforming writers fill the 8-byte checksum
// field ("octal digits terminated by one or more space or NUL characters"):
// archive/tar and GNU tar write the first one; star / pax, the Rust tar crate,
// 4.3BSD and V7 tar the others.
var c18ChksumLayouts = []string{"%06o\x00 ", "%06o \x00", "%07o\x00", "%07o ", "%06o  ", "%06o\x00\x00", "%6o\x00 "}

// c18FieldValue parses the octal number a writer put into the checksum field.
func c18FieldValue(f []byte) int {
	v, digits := 0, 0
	for _, ch := range f {
		switch {
		case ch >= '0' && ch <= '7':
			v = v<<3 | int(ch-'0')
			digits++
		case ch == ' ' || ch == 0:
			if digits > 0 {
				return v
			}
		default:
			return -1
		}
	}
	if digits == 0 {
		return -1
	}
	return v
}

func c18Setup(c *core.Ctx) {
	c.Register("c18pos", c18PosEval)
	c.Register("c18neg", c18NegEval)
}

func c18Run(c *core.Ctx) {
	formats := []tar.Format{tar.FormatUSTAR, tar.FormatPAX, tar.FormatGNU}
	names := []string{"a", strings.Repeat("n", 99), strings.Repeat("d/", 30) + strings.Repeat("n", 40), strings.Repeat("m", 101), strings.Repeat("p", 150) + "/" + strings.Repeat("q", 100), "dir/café.txt",
		// near misses of the documented Gentoo exclusion (a name *ending* in /gpkg-1 is excluded, these are not)
		"dist/gpkg-1.2/README", "a/gpkg-1/b", "x/gpkg-10", "src/gpkg-1-r1.ebuild", "x/gpkg-2", "x/Gpkg-1", "gpkg-1/x",
		"PK\x03\x04name", "MZfile", "%PDF-1.4.txt", "\x7fELFish", "!<arch>\n", "BMimage", "GIF89a.gif", "#!/bin/sh", "<html>", "{\"a\":1}"}
	modes := []int64{0, 0o644, 0o7777}
	ids := []int{0, 1000, 2097151, 2097152}
	sizes := []int64{0, 1, 511, 512, 8<<30 - 1, 8 << 30}
	// POSIX types, and letters: A-Z are reserved for vendor extensions and real
	// writers put them into the first block (GNU volume label 'V', multi-volume
	// continuation 'M', dump directory 'D', old long names 'N'; Solaris 'X' / 'E' / 'A', star 'I')
	types := []byte{tar.TypeReg, tar.TypeDir, tar.TypeSymlink, tar.TypeChar, tar.TypeFifo, tar.TypeLink, tar.TypeBlock, tar.TypeCont, 'V', 'M', 'D', 'N', 'X', 'E', 'A', 'I', 'Z'}
	mtimes := []time.Time{time.Unix(0, 0), time.Unix(1700000000, 0), time.Unix(1<<33, 0)}
	owners := []string{"", strings.Repeat("u", 31)}
	if !c.Thorough() {
		ids = []int{0, 2097152}
		sizes = []int64{0, 511, 8 << 30}
		mtimes = mtimes[1:]
	}
	pos := &core.Case{Kind: "c18pos", Strs: []string{"", ""}}
	neg := &core.Case{Kind: "c18neg", Ints: []int{0, 0}}
	seen := map[[20]byte]bool{}
	var rejected, archives, distinct uint64
	corruptBudget := 14
	if c.Thorough() {
		// all 255 values at every position for the first 48 distinct first blocks
		// of every (format, name); the reduced value set for the rest (the type
		// menu grew from 5 to 17: the full sweep no longer fits the tier budget)
		corruptBudget = 48
	}
	unit := 0
	for _, f := range formats {
		for _, name := range names {
			unit++
			if !c.Next() || c.Expired() {
				continue
			}
			fullCorrupt := 0
			for _, mode := range modes {
				for _, id := range ids {
					for _, size := range sizes {
						for _, tf := range types {
							for _, mt := range mtimes {
								for _, ow := range owners {
									h := &tar.Header{Name: name, Mode: mode, Uid: id, Gid: id, Size: size, Typeflag: tf, ModTime: mt, Uname: ow, Gname: ow}
									if tf != tar.TypeReg {
										h.Size = 0
										if size != sizes[0] {
											continue
										}
									}
									if tf == tar.TypeSymlink || tf == tar.TypeLink {
										h.Linkname = "target/of/link"
									}
									if tf == tar.TypeChar || tf == tar.TypeBlock {
										h.Devmajor, h.Devminor = 4, 64
									}
									if tf == tar.TypeDir {
										h.Name = name + "/"
									}
									b, err := buildTar(f, h)
									if len(b) < 512 {
										_ = err
										rejected++ // combination refused by the writer
										continue
									}
									archives++
									c.R.States++
									desc := fmt.Sprintf("%v name=%q mode=%o id=%d size=%d type=%c mtime=%d owner=%q", f, shortStr(name), mode, id, size, tf, mt.Unix(), ow)
									pos.In, pos.Strs[0], pos.Strs[1] = b, f.String(), desc
									for _, l := range []uint32{0, 512, 513, 3072} {
										pos.Limit = l
										c.R.Transitions++
										c.R.Evals++
										c.Check(pos)
									}
									c.SampleCase("pristine", pos)
									blk := b[:512]
									k := sha1.Sum(blk)
									if seen[k] {
										continue
									}
									seen[k] = true
									distinct++
									// the same header with its checksum field spelled the way other
									// conforming writers spell it (the value does not depend on the
									// field: all eight bytes count as spaces)
									if v := c18FieldValue(blk[148:156]); v >= 0 {
										alt := append([]byte{}, b...)
										for li, lay := range c18ChksumLayouts {
											f := fmt.Sprintf(lay, v)
											if len(f) != 8 {
												continue
											}
											copy(alt[148:156], f)
											pos.In, pos.Strs[1] = alt, desc+fmt.Sprintf(" chksum-layout=%d(%q)", li, f)
											for _, l := range []uint32{0, 512} {
												pos.Limit = l
												c.R.Transitions++
												c.R.Evals++
												c.Check(pos)
											}
											c.SampleCase("checksum-field-layouts", pos)
										}
										pos.In, pos.Strs[1] = b, desc
									}
									// corruption sweep
									full := fullCorrupt < corruptBudget
									if full {
										fullCorrupt++
									}
									m := append([]byte{}, blk...)
									for p := 0; p < 512; p++ {
										if p >= 148 && p < 156 {
											continue
										}
										orig := blk[p]
										try := func(v byte) {
											if v == orig {
												return
											}
											m[p] = v
											neg.In, neg.Ints[0], neg.Ints[1] = m, p, int(v)
											neg.Limit = 0
											c.R.Transitions++
											c.R.Evals++
											c.R.Nontrivial++
											c.Check(neg)
										}
										if full {
											for v := 0; v < 256; v++ {
												try(byte(v))
											}
											m[p] = (orig + 1)
											neg.In, neg.Limit, neg.Ints[0], neg.Ints[1] = m, 512, p, int(orig+1)
											c.Check(neg)
										} else {
											for _, v := range []byte{orig + 1, orig - 1, orig ^ 0x80, 0x00, 0x20, 0xFF, '0', '7'} {
												try(v)
											}
										}
										m[p] = orig
									}
									c.SampleCase("corrupted", neg)
								}
							}
						}
					}
				}
			}
		}
	}
	// member names spelled from the signature dictionary: every printable
	// string literal of the sources under test (2..24 bytes) starts a member
	// name. Whatever signature it spells, the archive is a tar unless one of
	// the formats that outrank tar claims it.
	// heavy headers: GNU-format first blocks (the format that permits arbitrary
	// bytes in names and base-256 numeric fields) whose name, link name and owner
	// names are runs of high bytes and whose ids / mtime are negative, so that the
	// header sum climbs past 2^15 and 2^16 — the widths at which a narrower
	// accumulator, signed or unsigned, would wrap. Written by archive/tar.
	var heavy, over15, over16 uint64
	for _, fill := range []string{"\x80", "\xc3", "\xff"} {
		for _, n1 := range []int{1, 50, 100} {
			for _, n2 := range []int{0, 60, 100} {
				for _, n3 := range []int{0, 32} {
					for _, negative := range []bool{false, true} {
						if !c.Next() || c.Expired() {
							continue
						}
						h := &tar.Header{Typeflag: tar.TypeSymlink, Name: strings.Repeat(fill, n1), Linkname: strings.Repeat(fill, n2), Uname: strings.Repeat(fill, n3), Gname: strings.Repeat(fill, n3), Mode: 0o777, ModTime: mtimes[0]}
						if n2 == 0 {
							h.Typeflag, h.Size = tar.TypeReg, 3
						}
						if negative {
							h.Uid, h.Gid, h.ModTime = -2, -2, time.Unix(-2, 0)
						}
						b, err := buildTar(tar.FormatGNU, h)
						if err != nil || len(b) < 512 {
							rejected++
							continue
						}
						sum := uint64(0)
						for i, x := range b[:512] {
							if i >= 148 && i < 156 {
								x = ' '
							}
							sum += uint64(x)
						}
						if sum >= 1<<15 {
							over15++
						}
						if sum >= 1<<16 {
							over16++
						}
						archives++
						heavy++
						c.R.States++
						pos.In, pos.Strs[0], pos.Strs[1] = b, "GNU", fmt.Sprintf("GNU heavy header fill=%q name=%d link=%d owner=%d negative=%v sum=%d", fill, n1, n2, n3, negative, sum)
						for _, l := range []uint32{0, 512, 3072} {
							pos.Limit = l
							c.R.Transitions++
							c.R.Evals++
							c.Check(pos)
						}
						c.SampleCase("heavy-headers", pos)
					}
				}
			}
		}
	}
	c.Note("heavy-headers", heavy)
	c.Note("heavy-headers-sum>=2^15", over15)
	c.Note("heavy-headers-sum>=2^16", over16)
	var litNames uint64
	seenName := map[string]bool{}
	for _, lit := range literals(c) {
		if len(lit) < 2 || len(lit) > 24 || seenName[string(lit)] {
			continue
		}
		printable := true
		for _, b := range lit {
			if b < 0x20 || b > 0x7e {
				printable = false
			}
		}
		if !printable {
			continue
		}
		seenName[string(lit)] = true
		if !c.Next() || c.Expired() {
			continue
		}
		for _, f := range formats {
			// the literal at name offsets 0, 4 and 8 (signatures are not all at offset 0)
			for _, name := range []string{string(lit) + "-notes/a.txt", string(lit), "scan" + string(lit) + "/a.txt", "backup__" + string(lit) + "/a.txt"} {
				if strings.HasSuffix(name, "/gpkg-1") {
					continue // the documented exclusion
				}
				h := &tar.Header{Name: name, Mode: 0o644, Size: 3, Typeflag: tar.TypeReg, ModTime: mtimes[0]}
				b, _ := buildTar(f, h)
				if len(b) < 512 {
					rejected++
					continue
				}
				archives++
				litNames++
				c.R.States++
				pos.In, pos.Strs[0], pos.Strs[1] = b, f.String(), fmt.Sprintf("%v name=%q", f, name)
				for _, l := range []uint32{0, 512, 3072} {
					pos.Limit = l
					c.R.Transitions++
					c.R.Evals++
					c.Check(pos)
				}
				c.SampleCase("literal-member-names", pos)
			}
		}
	}
	c.Note("literal-member-names", litNames)
	c.Note("archives-written", archives)
	c.Note("combinations-refused-by-writer", rejected)
	c.Note("distinct-first-blocks", distinct)
	_ = bytes.MinRead
}

func shortStr(s string) string {
	if len(s) > 24 {
		return s[:24] + "~"
	}
	return s
}
