// Package checks holds one bounded exhaustive exploration per property.
package checks

import (
	"bytes"
	"context"
	"fmt"
	"os/exec"
	"strings"
	"time"

	"github.com/gabriel-vasile/mimetype"
	"github.com/gabriel-vasile/mimetype/internal/verifx/core"
)

// Check is one property's exploration: Setup registers the evaluation
// functions (needed for replay too), Run enumerates this worker's shard.
type Check struct {
	Setup func(c *core.Ctx)
	Run   func(c *core.Ctx)
}

var Registry = map[string]*Check{}

// subs are entry points for child processes (C16 and fresh-process replays).
var subs = map[string]func(c *core.Ctx, args []string) int{}

func Sub(c *core.Ctx, name string, args []string) int {
	f := subs[name]
	if f == nil {
		fmt.Println("unknown sub", name)
		return 2
	}
	return f(c, args)
}

var curLimit uint32 = 3072
var limitKnown bool

// setLimit avoids redundant atomic stores in hot loops.
func setLimit(l uint32) {
	if !limitKnown || curLimit != l {
		mimetype.SetLimit(l)
		curLimit = l
		limitKnown = true
	}
}

var detectScratch []byte

// detect runs Detect under the given limit on a private, exactly-sized copy of
// the input (cap == len): harness-owned data (the witness corpus, generator
// buffers) is never handed to the implementation, so a detector that writes
// into its input cannot corrupt later cases or make a failure irreproducible.
func detect(in []byte, limit uint32) *mimetype.MIME {
	setLimit(limit)
	if len(in) > 1<<20 {
		return mimetype.Detect(in)
	}
	detectScratch = append(detectScratch[:0], in...)
	return mimetype.Detect(detectScratch[:len(in):len(in)])
}

// detectRaw hands the caller's own slice to Detect (buffer-integrity checks).
func detectRaw(in []byte, limit uint32) *mimetype.MIME {
	setLimit(limit)
	return mimetype.Detect(in)
}

// header returns the bytes the property statements call "the examined header".
func header(in []byte, limit uint32) []byte {
	if limit > 0 && uint64(len(in)) > uint64(limit) {
		return in[:limit]
	}
	return in
}

func bare(s string) string {
	if i := strings.IndexByte(s, ';'); i >= 0 {
		return s[:i]
	}
	return s
}

// chain returns the bare names from the result up to the root.
func chain(m *mimetype.MIME) []string {
	var out []string
	for i := 0; m != nil && i < 64; i, m = i+1, m.Parent() {
		out = append(out, bare(m.String()))
	}
	return out
}

func chainStr(m *mimetype.MIME) string {
	if m == nil {
		return "<nil>"
	}
	var out []string
	for i := 0; m != nil && i < 64; i, m = i+1, m.Parent() {
		out = append(out, m.String()+"("+m.Extension()+")")
	}
	return strings.Join(out, " <- ")
}

func inChain(m *mimetype.MIME, name string) bool {
	for i := 0; m != nil && i < 64; i, m = i+1, m.Parent() {
		if bare(m.String()) == name {
			return true
		}
	}
	return false
}

// runChild runs a child process with a generous deadline (children normally
// finish within seconds) and returns its combined output. timedOut reports
// that the deadline passed: the child was killed; a child that never returns
// must not hang the check.
func runChild(timeout time.Duration, env []string, bin string, args ...string) (out string, err error, timedOut bool) {
	ctx, cancel := context.WithTimeout(context.Background(), timeout)
	defer cancel()
	cmd := exec.CommandContext(ctx, bin, args...)
	if env != nil {
		cmd.Env = env
	}
	cmd.WaitDelay = 5 * time.Second
	var ob bytes.Buffer
	cmd.Stdout, cmd.Stderr = &ob, &ob
	err = cmd.Run()
	return ob.String(), err, ctx.Err() != nil
}
