package checks

import (
	"strings"

	"github.com/gabriel-vasile/mimetype"
)

// tokGen enumerates, by depth-first search over the RFC 8259 grammar as a
// pushdown generator, every token sequence that is a complete JSON document
// whose top-level value is an array or object, with at most maxTok tokens and
// nesting at most maxDepth. A generator state is (stack of open containers,
// expectation); a transition appends one token.
type tokGen struct {
	maxTok   int
	maxDepth int
	scalars  []string
	keys     []string
	states   uint64
	trans    uint64
}

const (
	exTop = iota
	exArrFirst
	exArrNext // after a value inside an array
	exArrValue
	exObjFirst
	exObjColon
	exObjValue
	exObjNext
	exObjKey
)

// run calls emit for every document. prefixFilter (may be nil) is asked at
// depth `shardDepth` tokens whether this subtree belongs to the caller.
func (g *tokGen) run(shardDepth int, mine func() bool, emit func(toks []string)) {
	toks := make([]string, 0, g.maxTok)
	stack := make([]byte, 0, g.maxDepth)
	var rec func(ex int)
	push := func(t string, ex int) {
		toks = append(toks, t)
		g.trans++
		rec(ex)
		toks = toks[:len(toks)-1]
	}
	afterValue := func() int {
		if len(stack) == 0 {
			return -1
		}
		if stack[len(stack)-1] == '[' {
			return exArrNext
		}
		return exObjNext
	}
	value := func() {
		for _, s := range g.scalars {
			if len(stack) == 0 {
				continue // top-level scalars are not documents here
			}
			push(s, afterValue())
		}
		if len(stack) < g.maxDepth {
			stack = append(stack, '[')
			push("[", exArrFirst)
			stack[len(stack)-1] = '{'
			push("{", exObjFirst)
			stack = stack[:len(stack)-1]
		}
	}
	closeC := func(t string) {
		c := stack[len(stack)-1]
		stack = stack[:len(stack)-1]
		push(t, afterValue())
		stack = append(stack, c)
	}
	rec = func(ex int) {
		g.states++
		if ex == -1 {
			emit(toks)
			return
		}
		if len(toks) == shardDepth && mine != nil && !mine() {
			return
		}
		// minimal number of tokens still needed to finish
		need := len(stack)
		switch ex {
		case exObjColon:
			need += 2
		case exObjValue, exArrValue, exObjKey:
			need += 1
			if ex == exObjKey {
				need += 2
			}
		case exTop:
			need = 2
		}
		if len(toks)+need > g.maxTok {
			return
		}
		switch ex {
		case exTop:
			value()
		case exArrFirst:
			closeC("]")
			value()
		case exArrValue:
			value()
		case exArrNext:
			closeC("]")
			push(",", exArrValue)
		case exObjFirst:
			closeC("}")
			for _, k := range g.keys {
				push(k, exObjColon)
			}
		case exObjKey:
			for _, k := range g.keys {
				push(k, exObjColon)
			}
		case exObjColon:
			push(":", exObjValue)
		case exObjValue:
			value()
		case exObjNext:
			closeC("}")
			push(",", exObjKey)
		}
	}
	rec(exTop)
}

func joinToks(toks []string, sep string) []byte {
	return []byte(strings.Join(toks, sep))
}

// jsonFamily reports whether application/json occurs in the result chain.
func jsonFamily(m *mimetype.MIME) bool { return inChain(m, "application/json") }

// nodeDetector finds a node's detector by name and extension through the hook.
func nodeDetector(name, ext string) func([]byte, uint32) bool {
	if d, ok := detCache[name+"|"+ext]; ok {
		return d
	}
	var d func([]byte, uint32) bool
	for _, n := range mimetype.VerifNodes() {
		if n.Name == name && n.Ext == ext {
			d = n.Det
			break
		}
	}
	detCache[name+"|"+ext] = d
	return d
}

var detCache = map[string]func([]byte, uint32) bool{}

// pinnedTextChildren is the order of text/plain's children in the pinned tree
// (tree.go:83). The "higher-priority signature" exception of C08 / C13 is
// decided against this fixed order, NOT against the running tree: a change that
// reorders the tree moves real documents to other formats and must not move
// the oracle along with it.
var pinnedTextChildren = []string{"text/html", "image/svg+xml", "text/xml", "text/x-php", "text/javascript", "text/x-lua", "text/x-perl",
	"text/x-python", "application/json", "application/x-ndjson", "text/rtf", "application/x-subrip", "text/x-tcl", "text/csv",
	"text/tab-separated-values", "text/vcard", "text/calendar", "application/warc", "text/vtt"}

// higherPriority reports whether result m lies on a branch that the first-match
// walk of the pinned tree tries before `target` (a child of text/plain, e.g.
// application/json): a root child other than text/plain (text/plain is the
// last root child), or an earlier child of text/plain.
func higherPriority(m *mimetype.MIME, targetName, targetExt string) bool {
	ch := chain(m)
	if len(ch) >= 2 && ch[len(ch)-2] != "text/plain" {
		return true
	}
	if len(ch) < 3 {
		return false // text/plain itself (or the root)
	}
	lvl2 := ch[len(ch)-3]
	for _, n := range pinnedTextChildren {
		if n == targetName {
			return false
		}
		if n == lvl2 {
			return true
		}
	}
	return false
}
