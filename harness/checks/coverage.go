package checks

import (
	"fmt"
	"sort"

	"github.com/gabriel-vasile/mimetype"
	"github.com/gabriel-vasile/mimetype/internal/verifx/core"
)

func init() {
	subs["coverage"] = func(c *core.Ctx, args []string) int {
		nodes := mimetype.VerifNodes()
		hit := map[string]int{}
		for _, w := range corpus(c) {
			m := detect(w.Data, 0)
			for ; m != nil; m = m.Parent() {
				hit[bare(m.String())+"|"+m.Extension()]++
			}
		}
		var miss []string
		for _, n := range nodes {
			if hit[n.Name+"|"+n.Ext] == 0 {
				miss = append(miss, n.Name+"|"+n.Ext)
			}
		}
		sort.Strings(miss)
		fmt.Printf("nodes=%d witnesses=%d uncovered=%d\n", len(nodes), len(corpus(c)), len(miss))
		for _, m := range miss {
			fmt.Println("  ", m)
		}
		return 0
	}
}
