package checks

import (
	"bytes"
	"fmt"
	"strings"

	"github.com/gabriel-vasile/mimetype"
)

// ---- reference model of the detector tree (list-of-children, first match) ----

type mnode struct {
	name, ext string
	aliases   []string
	det       func([]byte, uint32) bool
	children  []*mnode
	parent    *mnode
	label     int
	builtin   bool
}

type treeModel struct {
	root   *mnode
	labels map[string]int
	names  []string
	byName map[string]*mnode // first node in pre-order carrying that name or alias (model of Lookup)
	trace  []int32          // consultations recorded inside the implementation
	undo   func()
	hist   string
	exts   []extRecord
	preds  []func([]byte, uint32) bool

	handle1      *mimetype.MIME // live handle to the first extension, kept across later Extends
	handle1Model *mnode
}

func (t *treeModel) labelOf(name, ext string) int {
	k := name + "|" + ext
	if id, ok := t.labels[k]; ok {
		return id
	}
	id := len(t.names)
	t.labels[k] = id
	t.names = append(t.names, k)
	return id
}

// extension predicates (index = Pred in extOp)
var extPreds = []struct {
	name string
	f    func([]byte, uint32) bool
}{
	{"never", func([]byte, uint32) bool { return false }},
	{"always", func([]byte, uint32) bool { return true }},
	{"prefix-foo", func(b []byte, _ uint32) bool { return bytes.HasPrefix(b, []byte("foo")) }},
	{"prefix-PK34", func(b []byte, _ uint32) bool { return bytes.HasPrefix(b, []byte("PK\x03\x04")) }},
	{"first-nonspace-brace", func(b []byte, _ uint32) bool {
		for _, c := range b {
			if c == ' ' || c == '\n' || c == '\t' || c == '\r' {
				continue
			}
			return c == '{'
		}
		return false
	}},
	{"contains-NUL", func(b []byte, _ uint32) bool { return bytes.IndexByte(b, 0) >= 0 }},
	{"empty", func(b []byte, _ uint32) bool { return len(b) == 0 }},
	{"limit-is-0", func(_ []byte, l uint32) bool { return l == 0 }},
	// a detector is arbitrary user code: this one changes the global read limit
	// while the walk is in progress and rejects. The walk must go on with the
	// limit it started with (index 8; not part of the C14 alphabet).
	{"side-effect-SetLimit(0)-rejects", func(_ []byte, _ uint32) bool {
		mimetype.SetLimit(0)
		limitKnown = false
		return false
	}},
	{"side-effect-SetLimit(5)-rejects", func(_ []byte, _ uint32) bool {
		mimetype.SetLimit(5)
		limitKnown = false
		return false
	}},
}

// "detached-result": Extend is called on a detection RESULT (the bare root a
// detection of unknown bytes returns): results are detached copies, so the
// call must leave the tree as it is.
var extAttach = []string{"root-pkg", "root-lookup", "text/plain", "application/zip", "application/json", "text/xml", "image/png", "application/pdf", "prev-ext", "handle-1", "detached-result"}

// extOp is one Extend call.
type extOp struct {
	Attach  int // index into extAttach
	Pred    int
	Aliases int // 0, 1 or 2 aliases
	Dup     bool // register under the shared name "x/dup" instead of a fresh one
	AliasBuiltin bool // the first alias is "text/html", a name a built-in format already carries
	ExtXML       bool // the file extension is ".xml", which a built-in format already uses
	NoExt        bool // registered without a file extension ("", as several built-in formats are)
	PrefixName bool // register under the attachment point's name + "-ext" (as text/xml-external-parsed-entity extends text/xml): a different type whose name merely starts with its parent's
	Same    bool // register under the MIME string of the attachment point (new extension only, like .aaf under application/octet-stream's namesake)
}

func (o extOp) String() string {
	d := ""
	if o.Dup {
		d = "/dupname"
	}
	if o.Same {
		d += "/parents-name"
	}
	return fmt.Sprintf("%s<-%s/a%d%s", extAttach[o.Attach], extPreds[o.Pred].name, o.Aliases, d)
}

// extName is the (user chosen) name of the k-th extension of a history: names are
// not required to be lower case, every second one is spelled with capitals.
func extName(k int) string {
	if k%2 == 1 {
		return fmt.Sprintf("X/Ext-%d", k+1)
	}
	return fmt.Sprintf("x/e%d", k+1)
}

var pristineTaken bool
var pristineNodes []mimetype.VerifNode

// installTree resets the implementation's tree to the pristine built-in shape,
// replays the Extend history on the implementation AND on the independent
// model (prepend), then wraps every implementation detector with a recorder.
func installTree(history []extOp, cur *treeModel) *treeModel {
	if cur != nil && cur.undo != nil {
		cur.undo()
		cur.undo = nil
	}
	t := newTree()
	for _, op := range history {
		t.apply(op)
	}
	t.wrap()
	return t
}

type extRecord struct {
	name, ext, parent string
	aliases            []string // the caller-owned slice handed to Extend (len = aliases, cap = len+2)
	spare              []string // the two spare slots of its backing array
}

func newTree() *treeModel {
	if !pristineTaken {
		mimetype.VerifSnapshot()
		pristineNodes = mimetype.VerifNodes()
		pristineTaken = true
	}
	mimetype.VerifRestore()
	t := &treeModel{labels: map[string]int{}, byName: map[string]*mnode{}}
	ms := make([]*mnode, len(pristineNodes))
	for i, n := range pristineNodes {
		ms[i] = &mnode{name: n.Name, ext: n.Ext, aliases: n.Aliases, det: n.Det, builtin: true}
		ms[i].label = t.labelOf(n.Name, n.Ext)
	}
	for i, n := range pristineNodes {
		for _, ci := range n.Children {
			ms[i].children = append(ms[i].children, ms[ci])
			ms[ci].parent = ms[i]
		}
	}
	t.root = ms[0]
	return t
}

// apply performs one Extend on the implementation (public API) and on the model.
func (t *treeModel) apply(op extOp) {
	if t.undo != nil {
		t.undo()
		t.undo = nil
	}
	k := len(t.exts)
	name := extName(k)
	if op.Dup {
		name = "x/dup"
	}
	ext := fmt.Sprintf(".e%d", k+1)
	if op.ExtXML {
		ext = ".xml"
	}
	if op.NoExt {
		ext = ""
	}
	backing := make([]string, op.Aliases+2)
	for a := 0; a < op.Aliases; a++ {
		backing[a] = fmt.Sprintf("x/e%d-alias%d", k+1, a+1)
	}
	if op.AliasBuiltin && op.Aliases > 0 {
		backing[0] = "text/html"
	}
	backing[op.Aliases], backing[op.Aliases+1] = "<spare0>", "<spare1>"
	aliases := backing[:op.Aliases:len(backing)]
	pred := extPreds[op.Pred].f
	prevName := ""
	if k > 0 {
		prevName = t.exts[k-1].name
	}
	if extAttach[op.Attach] == "detached-result" {
		res := mimetype.Detect([]byte("\x00\x01 no format claims these bytes"))
		res.Extend(pred, name, ext, aliases...)
		if t.hist != "" {
			t.hist += " ; "
		}
		t.hist += op.String()
		return // the model tree is unchanged
	}
	parentName, target, viaHandle := extTarget(op, prevName, t.handle1)
	var modelParent *mnode
	if viaHandle {
		modelParent = t.handle1Model
		parentName = t.handle1Model.name
	}
	if op.Same {
		name = parentName
	}
	if op.PrefixName {
		name = parentName + "-ext"
	}
	if target == nil {
		mimetype.Extend(pred, name, ext, aliases...)
	} else {
		target.Extend(pred, name, ext, aliases...)
	}
	p := modelParent
	if p == nil {
		p = t.find(parentName)
	}
	n := &mnode{name: name, ext: ext, aliases: append([]string{}, aliases...), det: pred, parent: p}
	n.label = t.labelOf(name, ext)
	p.children = append([]*mnode{n}, p.children...)
	t.exts = append(t.exts, extRecord{name, ext, parentName, aliases, backing[op.Aliases:]})
	if k == 0 {
		// a handle obtained through Lookup: the first node of that name in
		// pre-order, in the implementation and in the model alike
		t.handle1 = mimetype.Lookup(name)
		t.handle1Model = t.find(name)
	}
	t.preds = append(t.preds, pred)
	if t.hist != "" {
		t.hist += " ; "
	}
	t.hist += op.String()
}

// extTarget resolves the attachment point of one Extend call through the
// public API: the name of the parent, the value to call Extend on (nil: the
// package-level function) and whether the held handle was used.
func extTarget(op extOp, prevName string, handle1 *mimetype.MIME) (parentName string, target *mimetype.MIME, viaHandle bool) {
	const rootName = "application/octet-stream"
	switch extAttach[op.Attach] {
	case "root-pkg":
		return rootName, nil, false
	case "root-lookup":
		return rootName, mimetype.Lookup(rootName), false
	case "prev-ext":
		if prevName == "" {
			return rootName, nil, false
		}
		return prevName, mimetype.Lookup(prevName), false
	case "handle-1":
		// a handle to the first extension of this history, obtained right after
		// its registration and kept while the tree changes
		if handle1 == nil {
			return rootName, nil, false
		}
		return "", handle1, true
	default:
		return extAttach[op.Attach], mimetype.Lookup(extAttach[op.Attach]), false
	}
}

// wrap installs the consultation recorder on every implementation detector.
func (t *treeModel) wrap() {
	if t.undo != nil {
		return
	}
	nodes := mimetype.VerifNodes()
	t.undo = mimetype.VerifWrapDetectors(func(idx int, name string, d func([]byte, uint32) bool) func([]byte, uint32) bool {
		lab := int32(t.labelOf(nodes[idx].Name, nodes[idx].Ext))
		return func(raw []byte, l uint32) bool {
			r := d(raw, l)
			v := lab << 1
			if r {
				v |= 1
			}
			t.trace = append(t.trace, v)
			return r
		}
	})
}

// find models Lookup: depth-first, node name or alias.
func (t *treeModel) find(name string) *mnode {
	var rec func(n *mnode) *mnode
	rec = func(n *mnode) *mnode {
		if n.name == name {
			return n
		}
		for _, a := range n.aliases {
			if a == name {
				return n
			}
		}
		for _, c := range n.children {
			if r := rec(c); r != nil {
				return r
			}
		}
		return nil
	}
	return rec(t.root)
}

// modelWalk is the first-match descent of the property statement.
func (t *treeModel) modelWalk(h []byte, l uint32, trace []int32) (*mnode, []int32, int) {
	n := t.root
	depth := 1
	for {
		var next *mnode
		for _, c := range n.children {
			r := c.det(h, l)
			v := int32(c.label) << 1
			if r {
				v |= 1
			}
			trace = append(trace, v)
			if r {
				next = c
				break
			}
		}
		if next == nil {
			return n, trace, depth
		}
		n = next
		depth++
	}
}

func (t *treeModel) fmtTrace(tr []int32) string {
	var sb strings.Builder
	n := len(tr)
	start := 0
	if n > 24 {
		start = n - 24
		sb.WriteString("... ")
	}
	for _, v := range tr[start:] {
		sb.WriteString(t.names[v>>1])
		if v&1 == 1 {
			sb.WriteString("=T ")
		} else {
			sb.WriteString("=F ")
		}
	}
	return sb.String()
}

var modelTraceBuf []int32
var pristineBuf []byte
var workBuf []byte

// checkDetect runs Detect and compares consultation trace and result chain with
// the model walk. depth is the model path length (root = 1).
func (t *treeModel) checkDetect(in []byte, limit uint32) (ok bool, sig, msg string, depth int, leaf *mnode) {
	// the implementation only ever sees a private copy: the caller's bytes stay pristine
	pristineIn := in
	workBuf = append(workBuf[:0], in...)
	in = workBuf
	h := header(in, limit)
	pristineBuf = append(pristineBuf[:0], header(pristineIn, limit)...)
	leaf, mt, depth := t.modelWalk(h, limit, modelTraceBuf[:0])
	modelTraceBuf = mt
	if !bytes.Equal(h, pristineBuf) {
		// some signature check wrote into the header all checks share: whatever is
		// consulted afterwards no longer judges the examined bytes
		return false, "C03/header-modified-during-walk", fmt.Sprintf("input %s limit %d: a signature check modified the shared header during the reference walk (now %s)", quoteShort(pristineBuf), limit, quoteShort(h)), depth, leaf
	}
	t.trace = t.trace[:0]
	m := detect(in, limit)
	it := t.trace
	if !bytes.Equal(header(in, limit), pristineBuf) {
		return false, "C03/header-modified-during-walk", fmt.Sprintf("input %s limit %d: Detect modified the header it examines (now %s)", quoteShort(pristineBuf), limit, quoteShort(header(in, limit))), depth, leaf
	}
	// (a) consultations
	if len(it) != len(mt) {
		return false, "C03/trace-length", fmt.Sprintf("input %s limit %d tree[%s]: implementation consulted %d detectors, first-match walk consults %d\n impl: %s\n model: %s", quoteShort(in), limit, t.hist, len(it), len(mt), t.fmtTrace(it), t.fmtTrace(mt)), depth, leaf
	}
	for i := range it {
		if it[i] != mt[i] {
			return false, "C03/trace-mismatch", fmt.Sprintf("input %s limit %d tree[%s]: consultation %d differs: implementation %s, first-match walk %s", quoteShort(in), limit, t.hist, i, t.fmtTrace(it[i:i+1]), t.fmtTrace(mt[i:i+1])), depth, leaf
		}
	}
	// (b) chain
	x := m
	for n := leaf; n != nil; n = n.parent {
		if x == nil {
			return false, "C03/chain-too-short", fmt.Sprintf("input %s limit %d tree[%s]: result chain %s is shorter than the model path ending at %s", quoteShort(in), limit, t.hist, chainStr(m), leaf.name), depth, leaf
		}
		if bare(x.String()) != n.name || x.Extension() != n.ext {
			return false, "C03/chain-mismatch", fmt.Sprintf("input %s limit %d tree[%s]: result chain %s; model path has %s(%s) at this level (leaf %s)", quoteShort(in), limit, t.hist, chainStr(m), n.name, n.ext, leaf.name), depth, leaf
		}
		if x != m && strings.Contains(x.String(), ";") {
			return false, "C03/ancestor-with-parameters", fmt.Sprintf("input %s: ancestor %s carries parameters", quoteShort(in), x.String()), depth, leaf
		}
		x = x.Parent()
	}
	if x != nil {
		return false, "C03/chain-too-long", fmt.Sprintf("input %s limit %d tree[%s]: result chain %s is longer than the model path ending at %s", quoteShort(in), limit, t.hist, chainStr(m), leaf.name), depth, leaf
	}
	return true, "", "", depth, leaf
}

func quoteShort(b []byte) string {
	if len(b) > 96 {
		return fmt.Sprintf("%q...(%d bytes)", b[:96], len(b))
	}
	return fmt.Sprintf("%q", b)
}

// preorder lists the model nodes in pre-order.
func (t *treeModel) preorder() []*mnode {
	var out []*mnode
	var rec func(n *mnode)
	rec = func(n *mnode) {
		out = append(out, n)
		for _, c := range n.children {
			rec(c)
		}
	}
	rec(t.root)
	return out
}
