package checks

import (
	"strings"
	"bytes"
	"fmt"

	"github.com/gabriel-vasile/mimetype"
	"github.com/gabriel-vasile/mimetype/internal/verifx/core"
)

// C17 — raising the read limit never loses a binary identification.
//
// State graph: state = (file f, examined length L), transition L -> L+1 and
// finally -> 0 (unlimited). B(L) := Detect at limit L is neither the bare root
// nor has text/plain in its chain. "L < L' => (B(L) => B(L'))" is the
// transitive closure of the edge invariant B(L) => B(L+1), so every edge of
// every explored file is evaluated: |f|+2 executions instead of |f|^2.
func init() { Registry["C17"] = &Check{Setup: c17Setup, Run: c17Run} }

func isBinaryID(m *mimetype.MIME) bool {
	return m.Parent() != nil && !inChain(m, "text/plain")
}

// c17Eval: Limit = L, Ints[0] = L' (the next limit; 0 = unlimited).
func c17Eval(cs *core.Case) (bool, string, string) {
	a := detect(cs.In, cs.Limit)
	b := detect(cs.In, uint32(cs.Ints[0]))
	if isBinaryID(a) && !isBinaryID(b) {
		kind := "unknown"
		if inChain(b, "text/plain") {
			kind = "text"
		}
		return false, "C17/binary-id-lost/" + bare(a.String()) + "->" + kind,
			fmt.Sprintf("file %s: at limit %d identified as %s, at the larger limit %d as %s", core.Quote(cs.In), cs.Limit, chainStr(a), cs.Ints[0], chainStr(b))
	}
	return true, "", ""
}

// c17HistEval: Limit = L, Ints[0] = L' > L (0 = unlimited). The file is examined
// at L (identified), then at a short limit, then at L': the identification at L
// must not be lost at L' because of what was examined in between.
func c17HistEval(cs *core.Case) (bool, string, string) {
	a := detect(cs.In, cs.Limit)
	for _, s := range []uint32{16, 8, 4} {
		detect(cs.In, s)
	}
	b := detect(cs.In, uint32(cs.Ints[0]))
	if isBinaryID(a) && !isBinaryID(b) {
		return false, "C17/binary-id-lost-after-short-examination/" + bare(a.String()),
			fmt.Sprintf("file %s: at limit %d identified as %s; after it was also examined at limits 16, 8 and 4, the larger limit %d gives %s", core.Quote(cs.In), cs.Limit, chainStr(a), cs.Ints[0], chainStr(b))
	}
	return true, "", ""
}

var c17ctx *core.Ctx

// c17FreshEval: Ints[0] = witness index. A fresh process (whose first detections
// these are) says what the witness is at limits 3072 and 0. Here the same file
// is first examined at the short limits 4, 8, 16, 32 and then at 3072 and 0: an
// identification the fresh process makes must not be lost. (State that sticks
// to the process cannot be shown by comparing two calls of one process.)
func c17FreshEval(cs *core.Case) (bool, string, string) {
	W := corpus(c17ctx)
	j := cs.Ints[0]
	want := c04FreshAnswers(c17ctx, j)
	if len(want) != 2*len(c04PairLimits) {
		return true, "skip-no-fresh-answers", ""
	}
	binStr := func(s string) bool {
		return !strings.HasPrefix(s, "application/octet-stream()") && !strings.Contains(s, "text/plain")
	}
	for _, l := range []uint32{4, 8, 16, 32} {
		detect(W[j].Data, l)
	}
	for k, l := range c04PairLimits {
		if l == 8 {
			continue
		}
		got := detect(W[j].Data, l)
		if binStr(want[2*k]) && !isBinaryID(got) {
			return false, "C17/binary-id-lost-after-short-examination/" + strings.SplitN(want[2*k], "(", 2)[0],
				fmt.Sprintf("witness %q: a fresh process identifies it at limit %d as %s; after the same file was examined at limits 4, 8, 16 and 32, limit %d gives %s", W[j].Name, l, want[2*k], l, chainStr(got))
		}
	}
	return true, "", ""
}

func c17Setup(c *core.Ctx) {
	c17ctx = c
	c.Register("c17", c17Eval)
	c.Register("c17hist", c17HistEval)
	c.Register("c17fresh", c17FreshEval)
}

func c17Run(c *core.Ctx) {
	cs := &core.Case{Kind: "c17", Ints: []int{0}}
	hist := &core.Case{Kind: "c17hist", Ints: []int{0}}
	maxFull := 4800
	// walk all edges of one file
	walk := func(f []byte, class string) {
		c.R.States++
		n := len(f)
		prevL := 1
		if n == 0 {
			return
		}
		// a descending pre-pass over a few limits (the whole file first): what is
		// identified here must stay identified at every larger limit of the
		// ascending sweep below, whatever was examined in between (the verdict is
		// a function of the input and the limit, not of the order of the calls)
		type dv struct {
			L int
			m string
		}
		var desc []dv
		for _, L := range []int{0, n + 1, n, 3072, 1024, 256, 64, 32, 16, 8, 4} {
			if L > n+1 {
				continue
			}
			if m := detect(f, uint32(L)); isBinaryID(m) {
				desc = append(desc, dv{L, chainStr(m)})
			}
			c.R.Evals++
		}
		prevB := isBinaryID(detect(f, 1))
		c.R.Evals++
		anyB := prevB
		step := func(L int) {
			b := isBinaryID(detect(f, uint32(L)))
			c.R.Evals++
			c.R.Transitions++
			if prevB && !b {
				cs.In, cs.Limit, cs.Ints[0] = f, uint32(prevL), L
				c.Check(cs)
			} else {
				c.R.Traces++
			}
			prevB, prevL = b, L
			if b {
				anyB = true
			}
			if !b {
				for _, d := range desc {
					if d.L != 0 && (L == 0 || L > d.L) {
						cs.In, cs.Limit, cs.Ints[0] = f, uint32(d.L), L
						c.Check(cs) // re-evaluated from scratch; reported only if it fails there too
						hist.In, hist.Limit, hist.Ints[0] = f, uint32(d.L), L
						c.Check(hist)
						break
					}
				}
			}
		}
		for L := 2; L <= n+1; L++ {
			if L > maxFull && L < n-64 && L%4099 != 0 {
				continue
			}
			step(L)
		}
		step(0)
		if n > maxFull {
			c.Note("long-files-strided-beyond-4800", 1)
		}
		if anyB {
			c.R.Nontrivial++
			if len(f) <= 64 {
				cs.In, cs.Limit = f, 0
				c.SampleCase(class, cs)
			}
		}
	}
	W := corpus(c)
	// (0) against fresh-process verdicts, before this worker has looked at anything
	{
		fc := &core.Case{Kind: "c17fresh", Ints: []int{0}}
		for j := range W {
			if len(W[j].Data) > 1<<16 || !c.Next() || c.Expired() {
				continue
			}
			fc.Ints[0] = j
			c.R.Evals++
			c.R.Transitions += 6
			c.Check(fc)
		}
		c.SampleCase("fresh-process-reference", fc)
	}
	tails := [][]byte{nil, []byte("\nThe quick brown fox jumps over the lazy dog, again and again...\n"), make([]byte, 64), bytesOf(0xFF, 64),
		make([]byte, 4300), bytes.Repeat([]byte("lorem ipsum dolor sit amet\n"), 160), bytesOf(0xFF, 4300)}
	// (1) witnesses x tails
	for _, w := range W {
		for _, t := range tails {
			if !c.Next() || c.Expired() {
				continue
			}
			walk(append(append([]byte{}, w.Data...), t...), "witness+tail")
		}
	}
	// (1b) witnesses followed by each byte-string constant of the detectors'
	// sources (directly, and behind 64 zero bytes): material that a check with a
	// "not followed by" or "contains" condition reacts to
	lits := literals(c)
	c.Info("source_literals", fmt.Sprint(len(lits)))
	for _, w := range W {
		if len(w.Data) == 0 || len(w.Data) > 4800 {
			continue
		}
		if !c.Next() || c.Expired() {
			continue
		}
		if !isBinaryID(detect(w.Data, 0)) {
			continue // only files that are identified as binary at some point matter here
		}
		for _, lit := range lits {
			walk(append(append([]byte{}, w.Data...), lit...), "witness+source-literal")
			if c.Thorough() || len(w.Data) < 700 {
				f := append(append([]byte{}, w.Data...), make([]byte, 64)...)
				walk(append(f, lit...), "witness+pad+source-literal")
			}
		}
	}
	// (1c) displaced witnesses: padding inserted after the first 4/8/12/16 bytes, so
	// that whatever a detector searches for lies beyond its scanning window
	// (512, 1152, 2048, 4096 bytes) while the magic number stays in front
	for _, w := range W {
		if len(w.Data) < 6 || len(w.Data) > 300 || !c.Next() || c.Expired() {
			continue
		}
		if !isBinaryID(detect(w.Data, 0)) {
			continue
		}
		for _, s := range []int{4, 8, 12, 16} {
			if s >= len(w.Data) {
				continue
			}
			for _, pad := range []int{508, 2044, 4092, 4100, 5000} {
				if !c.Thorough() && pad != 4100 && pad != 2044 {
					continue
				}
				for _, fill := range []byte{0x00, 0xEC} {
					f := append(append(append([]byte{}, w.Data[:s]...), bytesOf(fill, pad)...), w.Data[s:]...)
					walk(f, "displaced-witness")
				}
			}
		}
	}
	// (2) splices
	maxLen := 700
	if c.Thorough() {
		maxLen = 4800
	}
	c.Info("splice.maxlen_per_part", fmt.Sprint(maxLen))
	for i := range W {
		if !c.Next() || c.Expired() {
			continue
		}
		a := W[i].Data
		if len(a) > maxLen {
			a = a[:maxLen]
		}
		for j := range W {
			b := W[j].Data
			if len(b) > maxLen {
				b = b[:maxLen]
			}
			walk(append(append([]byte{}, a...), b...), "splice-concat")
			if len(b) > len(a) && len(a) > 0 {
				walk(append(append([]byte{}, a...), b[len(a):]...), "splice-overlay")
			}
		}
	}
	// (3) all strings <= 3 over the first bytes of witnesses u {00,20,FF}
	seen := map[byte]bool{0: true, 0x20: true, 0xFF: true}
	for _, w := range W {
		if len(w.Data) > 0 {
			seen[w.Data[0]] = true
		}
		if len(w.Data) > 1 {
			seen[w.Data[1]] = true
		}
	}
	var fb []byte
	for b := 0; b < 256; b++ {
		if seen[byte(b)] {
			fb = append(fb, byte(b))
		}
	}
	c.Info("short.alphabet_size", fmt.Sprint(len(fb)))
	for _, x := range fb {
		for _, y := range fb {
			if !c.Next() || c.Expired() {
				continue
			}
			walk([]byte{x, y}, "short")
			for _, z := range fb {
				walk([]byte{x, y, z}, "short")
				walk([]byte{x, y, z, 0}, "short")
			}
		}
	}
	// (4) single-byte mutants of short witnesses
	for _, w := range W {
		if len(w.Data) == 0 || len(w.Data) > 128 {
			continue
		}
		for pos := range w.Data {
			if !c.Next() || c.Expired() {
				continue
			}
			m := append([]byte{}, w.Data...)
			orig := w.Data[pos]
			var vals []int
			if c.Thorough() {
				for v := 0; v < 256; v++ {
					vals = append(vals, v)
				}
			} else {
				vals = []int{0, 0xFF, int(orig ^ 0x80), int(orig + 1), int(orig - 1), ' ', int(orig ^ 0x20)}
			}
			for _, v := range vals {
				if byte(v) == orig {
					continue
				}
				m[pos] = byte(v)
				walk(m, "byte-mutant")
			}
		}
	}
}

func bytesOf(b byte, n int) []byte {
	out := make([]byte, n)
	for i := range out {
		out[i] = b
	}
	return out
}
