package checks

import (
	"bytes"
	"errors"
	"fmt"
	"io"
	"os"
	"path/filepath"
	"strings"

	"github.com/gabriel-vasile/mimetype"
	"github.com/gabriel-vasile/mimetype/internal/verifx/core"
	"github.com/gabriel-vasile/mimetype/internal/verifx/explore"
)

// C05 — bytes, reader and file entry points agree; reads stop at limit; errors
// surface.
//
// The reader is an instrumented io.Reader whose every Read is a choice point of
// the explorer: how many bytes to deliver (default: fill p), whether the final
// bytes come together with io.EOF, whether to return (0, nil) once, and — in the
// error family — an injected sentinel error at a chosen byte offset, alone or
// together with the preceding bytes. Inputs <= 12 bytes: *all* chunkings; longer
// inputs: deviation bound 0,1,2 (thorough 3).
func init() { Registry["C05"] = &Check{Setup: c05Setup, Run: c05Run} }

type xreader struct {
	data     []byte
	pos      int
	x        *explore.Exec
	all      bool // enumerate all chunk sizes (small inputs)
	errAt    int  // -1: none
	errGlued bool // deliver the error together with the bytes that precede it
	errKind  int  // which error value is injected (c05Errs)
	lastZero bool
	reads    int
	sawEnd   bool
	afterEnd int
}

func (r *xreader) Read(p []byte) (int, error) {
	r.reads++
	if len(p) == 0 {
		return 0, nil
	}
	if r.errAt >= 0 && r.pos >= r.errAt {
		r.sawEnd = true
		return 0, c05Errs[r.errKind]
	}
	rem := len(r.data) - r.pos
	if rem == 0 {
		if r.sawEnd {
			r.afterEnd++
		}
		r.sawEnd = true
		return 0, io.EOF
	}
	max := len(p)
	if rem < max {
		max = rem
	}
	if r.errAt >= 0 && r.errAt-r.pos < max {
		max = r.errAt - r.pos
	}
	// (0, nil) once in a row is permitted by the io.Reader contract
	if !r.lastZero && r.reads <= 6 {
		if r.x.Deviate(2) == 1 {
			r.lastZero = true
			return 0, nil
		}
	}
	r.lastZero = false
	k := max
	if r.all {
		k = max - r.x.Choose(max) // 0 => max (default first), then max-1 ... 1
	} else {
		sizes := []int{max}
		for _, s := range []int{1, 2, (max + 1) / 2, max - 1} {
			if s >= 1 && s < max {
				dup := false
				for _, t := range sizes {
					if t == s {
						dup = true
					}
				}
				if !dup {
					sizes = append(sizes, s)
				}
			}
		}
		k = sizes[r.x.Deviate(len(sizes))]
	}
	copy(p, r.data[r.pos:r.pos+k])
	r.pos += k
	if r.errAt >= 0 && r.pos == r.errAt && r.errGlued {
		r.sawEnd = true
		return k, c05Errs[r.errKind]
	}
	if r.errAt < 0 && r.pos == len(r.data) {
		if r.x.Deviate(2) == 1 { // data together with EOF
			r.sawEnd = true
			return k, io.EOF
		}
	}
	return k, nil
}

// c05Errs: the failures a reader is made to report. 0: an opaque sentinel;
// 1 and 2: errors of a transport layer that WRAP io.ErrUnexpectedEOF / io.EOF
// (only the identical io.EOF value means "end of input" for an io.Reader).
var c05Kind int // index into c05Errs of the error injected by the running execution

var c05Errs = []error{
	errInjected,
	fmt.Errorf("verif transport: body closed early: %w", io.ErrUnexpectedEOF),
	fmt.Errorf("verif transport: stream reset: %w", io.EOF),
}

func sameResult(a, b *mimetype.MIME) bool {
	for a != nil && b != nil {
		if a.String() != b.String() || a.Extension() != b.Extension() {
			return false
		}
		a, b = a.Parent(), b.Parent()
	}
	return a == nil && b == nil
}

// c05Body is one execution: returns ok, sig, msg.
func c05Body(x *explore.Exec, in []byte, limit uint32, errAt int, glued, all bool) (bool, string, string) {
	want := detect(in, limit)
	r := &xreader{data: in, x: x, all: all, errAt: errAt, errGlued: glued, errKind: c05Kind}
	setLimit(limit)
	var got *mimetype.MIME
	var err error
	var pan any
	func() {
		defer func() { pan = recover() }()
		got, err = mimetype.DetectReader(r)
	}()
	if pan != nil {
		return false, "C05/reader-entry-panics", fmt.Sprintf("input %s limit %d schedule %v: DetectReader panics (%v) where Detect on the same bytes reports %s", core.Quote(in), limit, x.Choices, pan, chainStr(want))
	}
	if got == nil {
		return false, "C05/nil", "DetectReader returned nil"
	}
	desc := fmt.Sprintf("input %s limit %d schedule %v", core.Quote(in), limit, x.Choices)
	if errAt < 0 {
		if err != nil {
			return false, "C05/error-without-fault", fmt.Sprintf("%s: DetectReader returned error %v though the reader only ever reported end of input", desc, err)
		}
		if !sameResult(got, want) {
			return false, "C05/reader-disagrees-with-bytes", fmt.Sprintf("%s: DetectReader reports %s, Detect on the same bytes reports %s", desc, chainStr(got), chainStr(want))
		}
		if limit > 0 && r.pos > int(limit) {
			return false, "C05/consumed-beyond-limit", fmt.Sprintf("%s: %d bytes were taken from the reader", desc, r.pos)
		}
		if limit == 0 && (r.pos != len(in) || !r.sawEnd) {
			return false, "C05/limit0-did-not-drain", fmt.Sprintf("%s: limit 0 must consume the whole stream; consumed %d of %d, saw end=%v", desc, r.pos, len(in), r.sawEnd)
		}
		return true, "", ""
	}
	// injected error at offset errAt
	mustFail := limit == 0 || errAt < int(limit)
	if mustFail {
		if err == nil {
			return false, "C05/error-swallowed", fmt.Sprintf("%s: reader failed with %q after %d bytes (before the header was complete) but DetectReader returned no error and %s", desc, c05Errs[c05Kind], errAt, chainStr(got))
		}
		if !errors.Is(err, c05Errs[c05Kind]) || (c05Kind == 0 && !errors.Is(err, errInjected)) {
			return false, "C05/error-replaced", fmt.Sprintf("%s: reader failed with %q, DetectReader returned %v", desc, c05Errs[c05Kind], err)
		}
		if ok, sig, msg := validateResult(got, err); !ok {
			return false, "C05/error-result/" + sig, desc + ": " + msg
		}
		return true, "", ""
	}
	if err != nil {
		return false, "C05/error-after-complete-header", fmt.Sprintf("%s: the header (%d bytes) was complete before the reader failed at %d, yet error %v is returned", desc, limit, errAt, err)
	}
	if !sameResult(got, want) {
		return false, "C05/reader-disagrees-with-bytes", fmt.Sprintf("%s: DetectReader reports %s, Detect reports %s", desc, chainStr(got), chainStr(want))
	}
	if r.pos > int(limit) {
		return false, "C05/consumed-beyond-limit", fmt.Sprintf("%s: %d bytes were taken from the reader", desc, r.pos)
	}
	return true, "", ""
}

// c05Eval replays one schedule: Ints = [errAt, glued, all, choices...]
func c05Eval(cs *core.Case) (ok bool, sig, msg string) {
	explore.Replay(cs.Ints[3:], func(x *explore.Exec) bool {
		c05Kind = cs.Ints[1] >> 1
		ok, sig, msg = c05Body(x, cs.In, cs.Limit, cs.Ints[0], cs.Ints[1]&1 == 1, cs.Ints[2] == 1)
		c05Kind = 0
		return ok
	})
	return
}

var c05Tmp string

// c05FileEval: Ints[0]: 0 regular file, 1 missing, 2 directory, 3 empty file
func c05FileEval(cs *core.Case) (bool, string, string) {
	if c05Tmp == "" {
		c05Tmp, _ = os.MkdirTemp("", "verif-c05-")
	}
	setLimit(cs.Limit)
	switch cs.Ints[0] {
	case 0, 3:
		p := filepath.Join(c05Tmp, "f")
		data := cs.In
		if cs.Ints[0] == 3 {
			data = nil
		}
		if err := os.WriteFile(p, data, 0o600); err != nil {
			return true, "skip", ""
		}
		got, err := mimetype.DetectFile(p)
		want := detect(data, cs.Limit)
		if err != nil {
			return false, "C05/file-error", fmt.Sprintf("DetectFile on a readable file returned %v", err)
		}
		if !sameResult(got, want) {
			return false, "C05/file-disagrees-with-bytes", fmt.Sprintf("file with %s limit %d: DetectFile reports %s, Detect reports %s", core.Quote(data), cs.Limit, chainStr(got), chainStr(want))
		}
	case 1:
		got, err := mimetype.DetectFile(filepath.Join(c05Tmp, "does-not-exist"))
		if err == nil {
			return false, "C05/missing-file-no-error", "no error for a missing file"
		}
		if ok, sig, msg := validateResult(got, err); !ok {
			return false, "C05/error-result/" + sig, msg
		}
	case 2:
		got, err := mimetype.DetectFile(c05Tmp)
		if err == nil {
			return false, "C05/directory-no-error", "no error for a directory"
		}
		if ok, sig, msg := validateResult(got, err); !ok {
			return false, "C05/error-result/" + sig, msg
		}
	}
	return true, "", ""
}

// c05SeekEval: In = prefix || payload, Ints[0] = len(prefix), Ints[1] = reader
// kind (0 bytes.Reader, 1 strings.Reader, 2 os.File). The caller has already
// consumed the prefix from a seekable reader; DetectReader must classify what
// the reader still delivers (the payload) and leave the reader right behind the
// header it took.
func c05SeekEval(cs *core.Case) (bool, string, string) {
	k := cs.Ints[0]
	payload := cs.In[k:]
	want := detect(payload, cs.Limit)
	setLimit(cs.Limit)
	var r io.ReadSeeker
	switch cs.Ints[1] {
	case 0:
		r = bytes.NewReader(cs.In)
	case 1:
		r = strings.NewReader(string(cs.In))
	default:
		if c05Tmp == "" {
			c05Tmp, _ = os.MkdirTemp("", "verif-c05-")
		}
		p := filepath.Join(c05Tmp, "seek")
		if os.WriteFile(p, cs.In, 0o600) != nil {
			return true, "skip", ""
		}
		f, err := os.Open(p)
		if err != nil {
			return true, "skip", ""
		}
		defer f.Close()
		r = f
	}
	if _, err := r.Seek(int64(k), io.SeekStart); err != nil {
		return true, "skip", ""
	}
	got, err := mimetype.DetectReader(r)
	if err != nil {
		return false, "C05/error-without-fault", fmt.Sprintf("seekable reader at offset %d: DetectReader returned %v", k, err)
	}
	if !sameResult(got, want) {
		return false, "C05/reader-disagrees-with-bytes/seekable-reader-not-at-start", fmt.Sprintf("a seekable reader (kind %d) positioned at offset %d delivers %s; DetectReader reports %s, Detect on the delivered bytes reports %s (limit %d)", cs.Ints[1], k, core.Quote(payload), chainStr(got), chainStr(want), cs.Limit)
	}
	pos, _ := r.Seek(0, io.SeekCurrent)
	wantPos := int64(len(cs.In))
	if cs.Limit > 0 && int64(k)+int64(cs.Limit) < wantPos {
		wantPos = int64(k) + int64(cs.Limit)
	}
	if pos != wantPos {
		return false, "C05/consumed-beyond-limit/seekable-reader", fmt.Sprintf("a seekable reader at offset %d, limit %d, %d bytes: after DetectReader its position is %d, expected %d", k, cs.Limit, len(cs.In), pos, wantPos)
	}
	return true, "", ""
}

func c05Setup(c *core.Ctx) {
	c.Register("c05seek", c05SeekEval)
	c.Register("c05", c05Eval)
	c.Register("c05file", c05FileEval)
}

func c05Inputs(c *core.Ctx) [][]byte {
	ins := [][]byte{
		nil, []byte("a"), []byte("{}"), []byte("[1]"), []byte("PK\x03\x04"), []byte("\xEF\xBB\xBFa"), []byte("a,b\nc,d\n"), []byte("GIF89a\x01\x00"),
		[]byte(`{"a":[1,2]}`), []byte("<html><p>"), []byte("caf\xc3\xa9 bon"), []byte("%PDF-1.4 xx"),
		[]byte(`{"type":"Feature","geometry":null,"properties":{"a":[1,2,3]}}`),
		[]byte("a,b,c\n1,2,3\n4,5,6\n7,8,9\n"),
		[]byte("{\"a\":1}\n{\"b\":2}\n[3]\n"),
		[]byte(`<!DOCTYPE html><html><head><meta charset="iso-8859-2"></head><body>x</body></html>`),
		[]byte(`<?xml version="1.0" encoding="ISO-8859-1"?><rss version="2.0"></rss>`),
		[]byte("#!/usr/bin/env python\nprint('x')\n"),
		// cut documents: whether the detectors are told "whole file" or "header" matters
		[]byte(`{"a":[1,2`),
		[]byte(`{"type":"Feature","geometry":{"type":"Poi`),
		[]byte("a,b\n1,2\n3"),
		[]byte("a\tb\n1\t2\n3"),
		[]byte("{\"a\":1}\n{\"b\":2}\n{\"c"),
		[]byte("a,b\n1,2\n"),
	}
	for _, w := range corpus(c) {
		switch w.Name {
		case "synth/ooxml-docx", "synth/tar-USTAR", "synth/ole3-doc", "synth/jar", "synth/odf-application/epub+zip", "synth/crx", "synth/mkv":
			ins = append(ins, w.Data)
		}
	}
	ins = append(ins, []byte(strings.Repeat("The quick brown fox jumps over the lazy dog. ", 112)[:5000]))
	ins = append(ins, []byte(strings.Repeat("x", 3071)+"é"+"tail"))
	// longer than any plausible fixed internal buffer (64 KiB, 1 MiB): limit 0 must drain them
	ins = append(ins, append([]byte(strings.Repeat("line of text\n", 5400)), 0x00))
	ins = append(ins, append(bytes.Repeat([]byte("0123456789abcdef"), 1<<16), 0x01, 'z'))
	return ins
}

func c05Run(c *core.Ctx) {
	defer func() {
		if c05Tmp != "" {
			os.RemoveAll(c05Tmp)
		}
	}()
	ins := c05Inputs(c)
	c.Info("inputs", fmt.Sprint(len(ins)))
	maxBound := 3
	if c.Thorough() {
		maxBound = 4
	}
	c.Info("deviation_bound_long_inputs", fmt.Sprint(maxBound))
	cs := &core.Case{Kind: "c05"}
	var execs, points uint64
	boundDone := map[int]bool{}
	explore1 := func(in []byte, limit uint32, errAt int, glued bool, bound int, all bool, class string) {
		st := explore.Run(bound, 400000, func(x *explore.Exec) bool {
			ok, _, _ := c05Body(x, in, limit, errAt, glued, all)
			c.R.Traces++
			if !ok {
				c.R.Traces--
				cs.In, cs.Limit = in, limit
				g, a := 0, 0
				if glued {
					g = 1
				}
				g += 2 * c05Kind
				if all {
					a = 1
				}
				cs.Ints = append([]int{errAt, g, a}, x.Choices...)
				c.Check(cs)
				return false
			}
			return true
		})
		execs += st.Executions
		points += st.Points
		c.R.Evals += st.Executions
		c.R.States += st.Executions
		c.R.Transitions += st.Points + st.Executions
		if st.MaxDevs > 0 || errAt >= 0 {
			c.R.Nontrivial++
		}
		if st.Truncated {
			c.Cap(fmt.Sprintf("schedule-cap-400000(%s)", class))
		}
		boundDone[bound] = true
		c.Sample(class, map[string]any{"input": core.Quote(in), "limit": limit, "errAt": errAt, "glued": glued, "bound": bound, "executions": st.Executions})
	}
	for _, in := range ins {
		n := len(in)
		limits := []uint32{0, 1, 2, uint32(n), uint32(n + 1), 3072}
		if n > 0 {
			limits = append(limits, uint32(n-1))
		}
		seenL := map[uint32]bool{}
		for _, l := range limits {
			if seenL[l] {
				continue
			}
			seenL[l] = true
			if !c.Next() || c.Expired() {
				continue
			}
			small := n <= 12
			if n > 60000 {
				// huge inputs: the limit-0 / limit-3072 paths with at most one deviation, no fault sweep
				if l == 0 || l == 3072 {
					explore1(in, l, -1, false, 1, false, "huge-input")
					explore1(in, l, n, false, 0, false, "huge-input-error-at-end")
					explore1(in, l, 70000, true, 0, false, "huge-input-error-mid")
				}
				continue
			}
			// no fault
			if small {
				explore1(in, l, -1, false, -1, true, "all-chunkings")
			} else {
				explore1(in, l, -1, false, maxBound, false, "deviation-bounded")
			}
			// injected error at every offset 0..min(len, limit) (all offsets for limit 0)
			top := n
			if l > 0 && int(l) < top {
				top = int(l)
			}
			step := 1
			if top > 600 {
				step = 97
			}
			for off := 0; off <= top; off += step {
				for _, glued := range []bool{false, true} {
					if glued && off == 0 {
						continue
					}
					b := 1
					if small {
						b = -1
					}
					for kind := range c05Errs {
						c05Kind = kind
						explore1(in, l, off, glued, b, small, "error-at-offset")
					}
					c05Kind = 0
				}
			}
			if step > 1 {
				for _, off := range []int{top - 1, top} {
					explore1(in, l, off, false, 1, false, "error-at-offset")
					explore1(in, l, off, true, 1, false, "error-at-offset")
				}
				c.Note("error-offsets-strided-on-inputs>600", 1)
			}
			// files
			fc := &core.Case{Kind: "c05file", In: in, Limit: l, Ints: []int{0}}
			for k := 0; k < 4; k++ {
				fc.Ints[0] = k
				c.R.Evals++
				c.R.Transitions++
				c.Check(fc)
			}
		}
	}
	// W: every witness of the corpus (each node of the tree is reached by one)
	// through the reader (default answers plus every single deviation) and as a
	// file, at limits around its own length: the three entry points agree on
	// every format, not only on the curated inputs above
	var wit uint64
	for _, w := range corpus(c) {
		if !c.Next() || c.Expired() {
			continue
		}
		n := len(w.Data)
		if n > 1<<16 {
			continue
		}
		seenL := map[uint32]bool{}
		for _, l := range []uint32{0, 3072, uint32(n), uint32(n + 1), uint32(n - 1), 64} {
			if seenL[l] || (n == 0 && l == uint32(n-1)) {
				continue
			}
			seenL[l] = true
			explore1(w.Data, l, -1, false, 1, false, "W:corpus-witness")
			fc := &core.Case{Kind: "c05file", In: w.Data, Limit: l, Ints: []int{0}}
			c.R.Evals++
			c.R.Transitions++
			c.Check(fc)
			wit++
		}
	}
	// K: seekable readers that are not at their start (a container preamble was
	// read first): every witness <= 4 KiB behind four different preambles
	{
		kc := &core.Case{Kind: "c05seek", Ints: []int{0, 0}}
		pre := [][]byte{[]byte("\x89PNG\r\n\x1a\n"), []byte("PK\x03\x04frame"), []byte("{\"len\":12}\n"), {0, 0, 0, 8}}
		var nk uint64
		for _, w := range corpus(c) {
			if len(w.Data) == 0 || len(w.Data) > 4096 || !c.Next() || c.Expired() {
				continue
			}
			for pi, p := range pre {
				kc.In = append(append([]byte{}, p...), w.Data...)
				kc.Ints[0] = len(p)
				for _, l := range []uint32{0, 3072, 16} {
					kc.Limit = l
					kc.Ints[1] = (pi + int(l)) % 3
					c.R.Evals++
					c.R.States++
					c.R.Transitions++
					nk++
					c.Check(kc)
				}
			}
		}
		c.Note("K.seekable-reader-cases", nk)
		c.SampleCase("K:seekable-reader-not-at-start", kc)
	}
	// W2: every witness (<= 4 KiB) at every limit inside it: the reader (default
	// answers) and Detect agree, whatever field the limit happens to cut
	dc := &core.Case{Kind: "c05", Ints: []int{-1, 0, 0}}
	for _, w := range corpus(c) {
		if len(w.Data) > 4096 || !c.Next() || c.Expired() {
			continue
		}
		for L := 1; L < len(w.Data); L++ {
			dc.In, dc.Limit = w.Data, uint32(L)
			c.R.Evals++
			c.R.States++
			c.R.Transitions++
			c.Check(dc)
			wit++
		}
	}
	c.Note("W.witness-limit-pairs", wit)
	c.Note("executions", execs)
	c.Note("choice-points", points)
}
