package checks

import (
	"fmt"
	"strings"

	"github.com/gabriel-vasile/mimetype/internal/verifx/core"
	"github.com/gabriel-vasile/mimetype/internal/verifx/ref"
)

// C10 — JSON sub-types are decided by top-level members, wherever they appear.
//
// Objects are every ordered selection of k members from a menu of deciding
// members, decoys and siblings (at most one deciding member per kind), in three
// layouts, examined in full and at every cut from the end of the first deciding
// member to the end. Oracle: whole mode — equality with ref.ExpectedSubtype
// (encoding/json token stream); truncated — the verdict must be the best kind
// among deciding members fully inside the header, or one partially inside.
func init() { Registry["C10"] = &Check{Setup: c10Setup, Run: c10Run} }

type c10Member struct {
	text string
	kind string // "geo" | "har" | "gltf" | "" (decoy / sibling)
}

var c10Menu = func() []c10Member {
	var m []c10Member
	for _, g := range []string{"Feature", "FeatureCollection", "Point", "LineString", "Polygon", "MultiPoint", "MultiLineString", "MultiPolygon", "GeometryCollection"} {
		m = append(m, c10Member{`"type":"` + g + `"`, "geo"})
	}
	for _, h := range []string{`"log":{"version":"1.2"}`, `"log":{"creator":{}}`, `"log":{"entries":[]}`, `"log":{"x":1,"entries":[1]}`, `"log":{"a":[1,2],"version":1}`} {
		m = append(m, c10Member{h, "har"})
	}
	for _, g := range []string{`"asset":{"version":"1.0"}`, `"asset":{"version":"2.0"}`, `"asset":{"generator":"g","version":"2.0"}`, `"asset":{"extras":[[1]],"version":"2.0"}`} {
		m = append(m, c10Member{g, "gltf"})
	}
	// deciding members whose own value (or an earlier sibling inside the same
	// object) is drawn from a small value grammar: the verdict must not depend on
	// what the deciding member contains
	vals := []string{`{"name":"x"}`, `[{"time":1}]`, `{"a":{"b":[{}]}}`, `[[{"k":"v"}],2]`, `[1,2]`, `"s"`}
	for _, key := range []string{"version", "creator", "entries"} {
		for _, v := range vals {
			m = append(m, c10Member{`"log":{"` + key + `":` + v + `}`, "har"})
		}
	}
	for _, v := range vals[:4] {
		m = append(m, c10Member{`"log":{"pages":` + v + `,"entries":[]}`, "har"})
		m = append(m, c10Member{`"asset":{"extras":` + v + `,"version":"2.0"}`, "gltf"})
		m = append(m, c10Member{`"asset":{"version":"1.0","extras":` + v + `}`, "gltf"})
	}
	// empty containers spelled with white space inside (what pretty printers
	// emit), as an earlier sibling inside the deciding object
	m = append(m, c10Member{`"log":{"pages":[ ],"version":"1.2"}`, "har"})
	m = append(m, c10Member{"\"asset\":{\"extras\":[\n],\"e\":{ },\"version\":\"2.0\"}", "gltf"})
	c10CoreMenu = len(m) // members beyond this index are siblings / decoys
	for _, d := range []string{
		`"a":1`, `"b":"s"`, `"c":null`, `"e":[]`, `"f":[1]`, `"g":[[1],[2]]`, `"h":[{"type":"Feature"}]`, `"i":{}`,
		`"j":{"type":"Point"}`, `"k":{"log":{"version":1}}`, `"l":{"asset":{"version":"2.0"}}`, `"m":[1,{"a":[2]},3]`,
		`"log":1`, `"log":{}`, `"log":[{"version":1}]`, `"log":{"Version":1}`,
		`"asset":{"version":"3.0"}`, `"asset":{"version":2.0}`, `"asset":"2.0"`, `"asset":{"v":{"version":"2.0"}}`,
		`"type":"feature"`, `"type":1`, `"type":["Feature"]`, `"Type":"Feature"`, `"types":"Feature"`, `"type":"x"`, `"type":{"type":"Feature"}`,
		`"accessors":[1]`, `"n":[[]]`, `"o":{"p":{"q":[{}]}}`,
		`"kind":"type"`, `"words":["type","log","asset","version"]`, `"source":"log"`,
		`"e2":[ ]`, `"i2":{ }`, "\"e3\":[\r\n\t]", `"log":[ ]`, `"asset":[ ]`,
	} {
		m = append(m, c10Member{d, ""})
	}
	return m
}()

var c10CoreMenu int

// c10Rich marks the deciding members generated from the value grammar; they
// take part in selections of at most 2 members in the quick tier.
func c10Rich(i int) bool { return i >= 18 && i < c10CoreMenu }

var c10Prio = map[string]int{"geo": 3, "har": 2, "gltf": 1, "json": 0}

func c10Kind(mime, ext string) string {
	switch {
	case mime == "application/geo+json":
		return "geo"
	case mime == "application/json" && ext == ".har":
		return "har"
	case mime == "model/gltf+json":
		return "gltf"
	case mime == "application/json" && ext == ".json":
		return "json"
	}
	return "other:" + mime + ext
}

// c10Eval: Ints = [geoS, geoE, harS, harE, gltfS, gltfE] byte ranges of the
// deciding top-level members (-1 when absent).
func c10Eval(cs *core.Case) (bool, string, string) {
	m := detect(cs.In, cs.Limit)
	got := c10Kind(bare(m.String()), m.Extension())
	whole := cs.Limit == 0 || uint64(len(cs.In)) < uint64(cs.Limit)
	if whole {
		exp := ref.ExpectedSubtype(cs.In)
		if got != exp.Kind {
			return false, fmt.Sprintf("C10/whole/expected-%s-got-%s", exp.Kind, got),
				fmt.Sprintf("document %s examined in full: expected %s (%s%s) by its top-level members, Detect reports %s", core.Quote(cs.In), exp.Kind, exp.MIME, exp.Ext, chainStr(m))
		}
		// generator self-check: the offsets handed in must agree with the reference
		best := "json"
		for i, k := range []string{"geo", "har", "gltf"} {
			if cs.Ints[2*i] >= 0 && c10Prio[k] > c10Prio[best] {
				best = k
			}
		}
		if best != exp.Kind {
			return false, "C10/generator-disagrees-with-reference", fmt.Sprintf("doc %s: generator thinks %s, reference %s", core.Quote(cs.In), best, exp.Kind)
		}
		return true, "", ""
	}
	cut := int(cs.Limit)
	bestFull := "json"
	allowed := map[string]bool{}
	for i, k := range []string{"geo", "har", "gltf"} {
		s, e := cs.Ints[2*i], cs.Ints[2*i+1]
		if s < 0 {
			continue
		}
		if e <= cut {
			allowed[k] = true
			if c10Prio[k] > c10Prio[bestFull] {
				bestFull = k
			}
		} else if s < cut {
			allowed[k] = true // partially inside: either answer is acceptable
		}
	}
	allowed["json"] = true
	if !allowed[got] || c10Prio[got] < c10Prio[bestFull] {
		if strings.HasPrefix(got, "other:") && !jsonFamily(m) && bestFull == "json" {
			// not JSON at all and no deciding member inside the header: that is
			// C08's concern, not a sub-type error
			return true, "not-json", ""
		}
		return false, fmt.Sprintf("C10/cut/best-inside-%s-got-%s", bestFull, got),
			fmt.Sprintf("document %s cut at %d (header %s): deciding members fully inside give %s, Detect reports %s", core.Quote(cs.In), cut, core.Quote(header(cs.In, cs.Limit)), bestFull, chainStr(m))
	}
	return true, "", ""
}

func c10Setup(c *core.Ctx) { c.Register("c10", c10Eval) }

func c10Run(c *core.Ctx) {
	kmax := 3
	if c.Thorough() {
		kmax = 4
	}
	c.Info("menu", fmt.Sprint(len(c10Menu)))
	c.Info("max_members", fmt.Sprint(kmax))
	cs := &core.Case{Kind: "c10", Ints: make([]int, 6)}
	layouts := []struct{ open, kv, sep, close string }{
		{"{", ":", ",", "}"},
		{"{ ", " : ", " , ", " }"},
		{"{\n  ", ": ", ",\n  ", "\n}\n"},
		{" \r\n{\r\n  ", ": ", ",\r\n  ", "\r\n}\r\n"}, // CRLF, pretty printed, white space before the document
		{"\t{\r\n\t", "\t:\t", "\r\n\t, ", "\r\n}"},      // comma first, tabs, CRLF, a tab before the document
	}
	render := func(sel []int, lay int, wrapArray bool) {
		L := layouts[lay]
		var sb strings.Builder
		for i := range cs.Ints {
			cs.Ints[i] = -1
		}
		if wrapArray {
			sb.WriteString("[")
		}
		sb.WriteString(L.open)
		for i, mi := range sel {
			if i > 0 {
				sb.WriteString(L.sep)
			}
			mem := c10Menu[mi]
			txt := mem.text
			if L.kv != ":" {
				// apply the key/value separator spacing at the top-level colon only
				j := strings.Index(txt, `":`)
				txt = txt[:j+1] + L.kv + txt[j+2:]
			}
			if strings.Contains(L.open, "\r") && strings.HasSuffix(txt, "}") && mem.kind != "" {
				// pretty printers put the closing brace of a nested object on its own
				// line: the deciding value is then followed by CR LF inside the object
				txt = txt[:len(txt)-1] + "\r\n  }"
			}
			start := sb.Len()
			sb.WriteString(txt)
			if mem.kind != "" && !wrapArray {
				k := map[string]int{"geo": 0, "har": 2, "gltf": 4}[mem.kind]
				cs.Ints[k], cs.Ints[k+1] = start, sb.Len()
			}
		}
		sb.WriteString(L.close)
		if wrapArray {
			sb.WriteString("]")
		}
		doc := []byte(sb.String())
		cs.In = doc
		c.R.States++
		nontrivial := false
		for i := 0; i < 6; i += 2 {
			if cs.Ints[i] >= 0 {
				nontrivial = true
			}
		}
		for _, l := range []uint32{0, uint32(len(doc) + 1)} {
			cs.Limit = l
			c.R.Transitions++
			c.R.Evals++
			c.Check(cs)
		}
		if nontrivial {
			c.R.Nontrivial++
			c.SampleCase("deciding-member", cs)
			first := len(doc)
			for i := 1; i < 6; i += 2 {
				if cs.Ints[i] >= 0 && cs.Ints[i] < first {
					first = cs.Ints[i]
				}
			}
			// every cut from the end of the first deciding member to the end;
			// plus the cuts inside it (start .. end) to exercise "partially inside"
			from := first - 12
			if from < 1 {
				from = 1
			}
			for cut := from; cut <= len(doc); cut++ {
				cs.Limit = uint32(cut)
				c.R.Transitions++
				c.R.Evals++
				c.Check(cs)
			}
		} else {
			c.SampleCase("decoys-only", cs)
		}
	}
	n := len(c10Menu)
	sel := make([]int, 0, kmax)
	// the single-member documents belong to shard 0; the recursion shards at depth 2
	if c.Mine(0) {
		for i := 0; i < n; i++ {
			for lay := range layouts {
				render([]int{i}, lay, false)
			}
			render([]int{i}, 0, true)
		}
	}
	for i := 0; i < n; i++ {
		sel = append(sel[:0], i)
		// depth-2 subtrees are the shard units
		for j := 0; j < n; j++ {
			if !c.Next() || c.Expired() {
				continue
			}
			if j == i || (c10Menu[j].kind != "" && c10Menu[j].kind == c10Menu[i].kind) {
				continue
			}
			sel = append(sel[:1], j)
			recFrom2(c, &sel, kmax, render, len(layouts))
		}
	}
}

func recFrom2(c *core.Ctx, sel *[]int, kmax int, render func([]int, int, bool), nlay int) {
	s := *sel
	for lay := 0; lay < nlay; lay++ {
		render(s, lay, false)
	}
	if len(s) <= 2 {
		render(s, 0, true)
	}
	if len(s) == kmax {
		return
	}
	for i := range c10Menu {
		ok := true
		if len(s) >= 3 || (!c.Thorough() && len(s) >= 2) {
			for _, j := range s {
				if c10Rich(j) {
					ok = false
				}
			}
			if c10Rich(i) {
				ok = false
			}
		}
		for _, j := range s {
			if j == i || (c10Menu[j].kind != "" && c10Menu[j].kind == c10Menu[i].kind) {
				ok = false
			}
		}
		if !ok {
			continue
		}
		ns := append(s, i)
		recFrom2(c, &ns, kmax, render, nlay)
	}
}
