package checks

import (
	"fmt"
	"strings"

	"github.com/gabriel-vasile/mimetype/internal/verifx/core"
)

// C12 — declared charsets are honoured.
//
// Documents = prologue x declaration syntax x name spelling x label x limit,
// the full cross product of the menus below. Oracle: bare type text/html
// (text/xml) and charset parameter == ASCII-lower-case(label); utf-16 labels
// in an HTML meta map to utf-8; a UTF-8 BOM wins over an HTML meta.
func init() { Registry["C12"] = &Check{Setup: c12Setup, Run: c12Run} }

func c12Eval(cs *core.Case) (bool, string, string) {
	m := detect(cs.In, cs.Limit)
	wantBare, wantCs, form := cs.Strs[0], cs.Strs[1], cs.Strs[2]
	if bare(m.String()) != wantBare {
		return false, "C12/wrong-type/" + wantBare + "/" + form,
			fmt.Sprintf("document %s (limit %d) should be %s; got %s", core.Quote(cs.In), cs.Limit, wantBare, chainStr(m))
	}
	got, ok := charsetOf(m)
	if !ok {
		return false, "C12/unparsable", "result " + m.String() + " does not parse"
	}
	if got != wantCs {
		return false, fmt.Sprintf("C12/declared-charset-not-honoured/%s/%s", wantBare, form),
			fmt.Sprintf("document %s (limit %d) declares charset %q (expected parameter %q) but Detect reports %s", core.Quote(cs.In), cs.Limit, cs.Strs[3], wantCs, m.String())
	}
	return true, "", ""
}

func c12Setup(c *core.Ctx) { c.Register("c12", c12Eval) }

var c12RealLabels = []string{
	"utf-8", "UTF-8", "Utf-8", "iso-8859-1", "ISO-8859-1", "Iso-8859-15", "windows-1252", "Windows-1252", "WINDOWS-1251",
	"shift_jis", "Shift_JIS", "euc-kr", "EUC-JP", "gb2312", "GBK", "gb18030", "big5", "Big5-HKSCS", "koi8-r", "KOI8-U", "us-ascii", "ASCII",
	"utf-16", "UTF-16", "utf-16le", "UTF-16BE", "Utf-16Le", "x-user-defined", "ibm866", "macintosh", "iso-2022-jp", "tis-620", "utf-7", "x-mac-cyrillic",
	"latin1", "cp1252", "l1", "csISOLatin1", "unicode-1-1-utf-8", "x-sjis", "windows-874", "ISO_8859-1:1987",
}

func lowerASCII(s string) string {
	b := []byte(s)
	for i, c := range b {
		if c >= 'A' && c <= 'Z' {
			b[i] = c + 0x20
		}
	}
	return string(b)
}

type c12Spell func(string) string

var c12Spells = []struct {
	name string
	f    c12Spell
}{
	{"lower", strings.ToLower},
	{"UPPER", strings.ToUpper},
	{"MiXed", func(s string) string {
		b := []byte(strings.ToLower(s))
		for i := 0; i < len(b); i += 2 {
			if b[i] >= 'a' && b[i] <= 'z' {
				b[i] -= 0x20
			}
		}
		return string(b)
	}},
}

// declaration forms; %M=meta %C=charset %H=http-equiv %T=content (spelled), L = label
var c12HTMLForms = []struct{ name, tmpl string }{
	{"charset-unquoted", `<%M %C=L>`},
	{"charset-dq", `<%M %C="L">`},
	{"charset-sq", `<%M %C='L'>`},
	{"charset-ws-eq-dq", `<%M %C = "L" >`},
	{"charset-ws-eq-unq", `<%M %C = L >`},
	{"charset-selfclose-dq", `<%M %C="L"/>`},
	{"charset-selfclose-sp", `<%M %C="L" />`},
	{"charset-selfclose-unq", `<%M %C=L />`},
	{"charset-extra-attrs", `<%M name="x" %C="L" data-y="1">`},
	// a <meta charset> that also carries a content attribute without any
	// charset in it, in both attribute orders (the two differ in order only)
	{"content-then-charset", `<%M %T="text/html" %C="L">`},
	{"charset-then-content", `<%M %C="L" %T="text/html">`},
	{"charset-name-content", `<%M %C="L" name="viewport" %T="width=device-width">`},
	{"charset-newlines", "<%M\n%C='L'\n>"},
	{"charset-tabs", "<%M\t%C=\"L\"\t>"},
	{"pragma", `<%M %H="Content-Type" %T="text/html; charset=L">`},
	{"pragma-reversed", `<%M %T="text/html; charset=L" %H="Content-Type">`},
	{"pragma-lower-ct", `<%M %H="content-type" %T="text/html;charset=L">`},
	{"pragma-upper-ct", `<%M %H='CONTENT-TYPE' %T='text/html; charset=L'>`},
	{"pragma-unquoted-he", `<%M %H=Content-Type %T="text/html; charset=L">`},
	{"pragma-ws-eq", `<%M %H="Content-Type" %T="text/html; charset = L">`},
	{"pragma-inner-dq", `<%M %H="Content-Type" %T='text/html; charset="L"'>`},
	{"pragma-inner-sq", `<%M %H="Content-Type" %T="text/html; charset='L'">`},
	{"pragma-only-charset", `<%M %H="Content-Type" %T="charset=L">`},
	{"pragma-trailing-param", `<%M %H="Content-Type" %T="text/html; charset=L;x=y">`},
	{"pragma-trailing-ws", `<%M %H="Content-Type" %T="text/html; charset=L ">`},
	{"pragma-selfclose", `<%M %H="Content-Type" %T="text/html; charset=L" />`},
	{"pragma-charset-word-before", `<%M %H="Content-Type" %T="text/html; x-charset-hint; charset=L">`},
	{"pragma-charset-word-before2", `<%M %H="Content-Type" %T="charset; charset=L">`},
	{"pragma-newlines", "<%M\n  %H=\"Content-Type\"\n  %T=\"text/html; charset=L\">"},
}

var c12Prologues = []struct{ name, text string }{
	{"html", `<html>`},
	{"doctype", `<!DOCTYPE html>`},
	{"doctype-lc-head", `<!doctype HTML><html><head>`},
	{"HEAD", `<HEAD>`},
	{"comment-fake", `<html><!-- <meta charset="fake"> --><head>`},
	{"script-fake", `<html><head><script>var s='<meta charset="fake">';</script>`},
	{"style-fake", `<html><head><style><meta charset=fake></style>`},
	{"title-fake", `<html><head><title><meta charset="fake"></title>`},
	{"textarea-fake", `<html><body><textarea><meta charset="fake"></textarea>`},
	{"other-metas", `<html><head><meta name="viewport" content="width=device-width"><meta name="description" content="charset=fake"><meta http-equiv="refresh" content="5">`},
	{"pragma-without-charset", `<html><head><meta http-equiv="Content-Type" content="text/html">`},
	{"pragma-without-charset-then-description", `<html><head><meta http-equiv="Content-Type" content="text/html"><meta name="description" content="charset=fake">`},
	{"description-then-pragma-without-charset", `<html><head><meta name="keywords" content="a, charset=fake"><meta http-equiv="Content-Type" content="text/html">`},
	{"leading-ws", "\n \t<html>\n<head>\n"},
	{"body-text", `<html><body><p>some text, charset=fake, meta</p>`},
	{"utf8-bom", "\xEF\xBB\xBF<html><head>"},
	{"long-comment-1500", "<html><!-- " + strings.Repeat("padding ", 190) + "--><head>"},
	{"long-text-2500", "<html><body><p>" + strings.Repeat("lorem ipsum ", 208) + "</p>"},
	// single tokens longer than the default limit: only examined with a raised limit
	{"long-comment-5000", "<html><!-- " + strings.Repeat("padding ", 625) + "--><head>"},
	{"long-script-6000", "<html><head><script>/* " + strings.Repeat("x = 1; ", 860) + "*/</script>"},
	{"long-text-9000", "<html><body>" + strings.Repeat("lorem ipsum ", 750) + "<head>"},
}

var c12Epilogues = []string{``, `</head><body>text</body></html>`, "\n<p>caf\xe9</p>"}

func c12Run(c *core.Ctx) {
	cs := &core.Case{Kind: "c12", Strs: make([]string, 4)}
	tokAlpha := []byte("aZ9-_.:+^~!*")
	var labels []string
	labels = append(labels, c12RealLabels...)
	nreal := len(labels)
	maxl := 3
	if c.Thorough() {
		maxl = 4
	}
	var rec func(s []byte)
	rec = func(s []byte) {
		if len(s) > 0 {
			labels = append(labels, string(s))
		}
		if len(s) == maxl {
			return
		}
		for _, x := range tokAlpha {
			rec(append(s, x))
		}
	}
	rec(nil)
	c.Info("labels", fmt.Sprintf("%d real + %d over %q up to length %d", nreal, len(labels)-nreal, tokAlpha, maxl))
	c.Info("html_forms", fmt.Sprint(len(c12HTMLForms)))
	c.Info("prologues", fmt.Sprint(len(c12Prologues)))

	run := func(doc []byte, declEnd int, wantBare, wantCs, form, label string, allCuts bool) {
		cs.In = doc
		cs.Strs[0], cs.Strs[1], cs.Strs[2], cs.Strs[3] = wantBare, wantCs, form, label
		c.R.States++
		c.R.Nontrivial++
		c.SampleCase(wantBare+":"+form, cs)
		limits := []uint32{0, 3072, uint32(declEnd), uint32(len(doc))}
		if allCuts {
			limits = limits[:2]
			for cut := declEnd; cut <= len(doc)+1 && cut <= declEnd+120; cut++ {
				limits = append(limits, uint32(cut))
			}
		}
		if declEnd > 3072 {
			limits = append(limits, 16384, 1<<20)
		}
		for _, l := range limits {
			if l != 0 && int(l) < declEnd {
				continue // the declaration must lie inside the examined header
			}
			cs.Limit = l
			c.R.Transitions++
			c.R.Evals++
			c.Check(cs)
		}
	}

	for li, L := range labels {
		if !c.Next() || c.Expired() {
			continue
		}
		real := li < nreal
		low := lowerASCII(L)
		// ---------- HTML
		for pi, pro := range c12Prologues {
			for _, form := range c12HTMLForms {
				if strings.HasSuffix(form.name, "-unq") || form.name == "charset-unquoted" {
					// an unquoted attribute value cannot hold these (HTML syntax)
					if strings.ContainsAny(L, "\"'=<>` ") {
						continue
					}
				}
				for si, sp := range c12Spells {
					if !real && (si != (li+pi)%3) && (!c.Thorough() || len(L) > 3) {
						continue // one spelling per (label, prologue), rotating, for synthetic labels (all spellings in thorough up to length 3)
					}
					decl := form.tmpl
					decl = strings.ReplaceAll(decl, "%M", sp.f("meta"))
					decl = strings.ReplaceAll(decl, "%C", sp.f("charset"))
					decl = strings.ReplaceAll(decl, "%H", sp.f("http-equiv"))
					decl = strings.ReplaceAll(decl, "%T", sp.f("content"))
					// substitute the label last and only at the placeholder (a single capital L
					// that follows '=', a quote or a space inside the template)
					decl = substLabel(decl, L)
					for ei, epi := range c12Epilogues {
						if !real && ei != li%len(c12Epilogues) {
							continue
						}
						doc := pro.text + decl + epi
						want := low
						if strings.HasPrefix(low, "utf-16") {
							if low != "utf-16" && low != "utf-16le" && low != "utf-16be" {
								continue // labels merely starting with utf-16: not demanded
							}
							want = "utf-8"
						}
						if pro.name == "utf8-bom" {
							want = "utf-8"
						}
						run([]byte(doc), len(pro.text)+len(decl), "text/html", want, form.name+"/"+pro.name+"/"+sp.name, L, real && si == 0)
					}
				}
			}
		}
		// ---------- XML
		for _, lead := range []string{"", "\n  "} {
			for _, q := range []string{`"`, `'`} {
				for _, tail := range []string{"", ` standalone="yes"`, ` standalone='no' `} {
					for _, vq := range []string{`"`, `'`} {
						// bodies whose bytes contradict the label (Latin-1, a C1 byte, DEL):
						// the declaration decides, not the byte statistics
						for _, root := range []string{"", "<a/>", "\n<root>x</root>\n", "<a>caf\xe9</a>", "<a>Wait\x85 \x7f</a>"} {
							// white space between the pseudo-attributes: S ::= (#x20 | #x9 | #xD | #xA)+
							for si, sep := range []string{" ", "\t", "\n", "\r\n", "  \n\t"} {
								if si > 0 && (root != "<a/>" || tail == ` standalone='no' `) {
									continue
								}
								decl := lead + `<?xml version=` + vq + `1.0` + vq + sep + `encoding=` + q + L + q + tail + `?>`
								doc := decl + root
								run([]byte(doc), len(decl), "text/xml", low, "xml-decl", L, real && vq == `"` && tail == "" && si == 0)
							}
						}
					}
				}
			}
		}
	}
}

// substLabel replaces the placeholder L of a declaration template.
func substLabel(t, label string) string {
	// the placeholder is the only 'L' preceded by one of = " ' or space and
	// followed by one of " ' > space ; / or end
	for i := 0; i < len(t); i++ {
		if t[i] != 'L' || i == 0 {
			continue
		}
		p := t[i-1]
		if p != '=' && p != '"' && p != '\'' && p != ' ' {
			continue
		}
		if i+1 < len(t) {
			n := t[i+1]
			if n != '"' && n != '\'' && n != '>' && n != ' ' && n != ';' && n != '/' {
				continue
			}
		}
		return t[:i] + label + t[i+1:]
	}
	panic("no placeholder in " + t)
}
