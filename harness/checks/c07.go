package checks

import (
	"bytes"
	"fmt"

	"github.com/gabriel-vasile/mimetype/internal/verifx/core"
	"github.com/gabriel-vasile/mimetype/internal/verifx/ref"
)

// C07 — text versus binary is decided by binary-data bytes.
//
// Spaces (all enumerated completely, see DESIGN.md §3 C07):
//  A. every byte string of length <= 2, limits {0,1,2,3};
//  B. every string of length <= n over the class alphabet sigma07, limit 0 and
//     every cut 1..len;
//  C. position sweeps: every text witness (and its five BOM-prefixed variants),
//     every position x all 256 byte values x limits {0, pos, pos+1, len+1};
//  D. every witness of the corpus and every prefix of it (<= 600 bytes).
func init() {
	Registry["C07"] = &Check{Setup: c07Setup, Run: c07Run}
}

var sigma07 = []byte{
	0x00, 0x08, 0x0B, 0x0E, 0x1A, 0x1C, 0x1F, // binary data bytes (run ends)
	0x09, 0x0A, 0x0C, 0x0D, 0x1B, 0x20, 0x7F, 0x80, // non-binary neighbours
	0xEF, 0xBB, 0xBF, 0xFE, 0xFF, // BOM material (00 is above)
	'a',
}

func c07Eval(cs *core.Case) (bool, string, string) {
	m := detect(cs.In, cs.Limit)
	if m == nil {
		return false, "C07/nil", "Detect returned nil"
	}
	h := header(cs.In, cs.Limit)
	t := ref.TextLike(h)
	isText := inChain(m, "text/plain")
	if isText && !t {
		i := ref.FirstBinary(h)
		return false, fmt.Sprintf("C07/text-with-binary-byte/0x%02X", h[i]),
			fmt.Sprintf("header %s (limit %d) has binary data byte 0x%02X at %d and no BOM, yet result %s has text/plain in its hierarchy", core.Quote(h), cs.Limit, h[i], i, chainStr(m))
	}
	if t && m.Parent() == nil {
		kind := "nobinary"
		if ref.HasBOM(h) {
			kind = "bom"
		}
		return false, "C07/textlike-reported-as-bare-root/" + kind,
			fmt.Sprintf("header %s (limit %d) is text-like (%s) but result is the bare root %s", core.Quote(h), cs.Limit, kind, chainStr(m))
	}
	return true, "", ""
}

func c07Setup(c *core.Ctx) { c.Register("c07", c07Eval) }

func c07Run(c *core.Ctx) {
	cs := &core.Case{Kind: "c07"}
	try := func(in []byte, limit uint32, class string) {
		cs.In, cs.Limit = in, limit
		c.R.Transitions++
		c.R.Evals++
		h := header(in, limit)
		if ref.FirstBinary(h) >= 0 || ref.HasBOM(h) {
			c.R.Nontrivial++
		}
		c.SampleCase(class, cs)
		c.Check(cs)
	}

	// A: all byte strings of length <= 2.
	buf := make([]byte, 0, 8)
	if c.Mine(0) {
		c.R.States++
		for _, l := range []uint32{0, 1, 3} {
			try(buf[:0], l, "A:len<=2")
		}
	}
	for a := 0; a < 256; a++ {
		if !c.Mine(uint64(a)) {
			continue
		}
		b1 := []byte{byte(a)}
		c.R.States++
		for _, l := range []uint32{0, 1, 2} {
			try(b1, l, "A:len<=2")
		}
		for b := 0; b < 256; b++ {
			b2 := []byte{byte(a), byte(b)}
			c.R.States++
			for _, l := range []uint32{0, 1, 2, 3} {
				try(b2, l, "A:len<=2")
			}
		}
	}

	// L: long inputs. One binary data byte at every power-of-two boundary (and its
	// neighbours) of an otherwise clean text of 20000 bytes, under limits on both
	// sides of it: a scan that gives up after a fixed number of bytes, or a limit
	// that is applied to one of two passes only, shows here and nowhere else.
	{
		base := bytes.Repeat([]byte("The quick brown fox jumps over the lazy dog.\n"), 445)[:20000]
		var positions []int
		for p := 256; p <= 16384; p *= 2 {
			positions = append(positions, p-1, p, p+1)
		}
		positions = append(positions, 3071, 3072, 3073, 9999, 19999)
		unit := uint64(0)
		for _, pos := range positions {
			for _, bad := range []byte{0x00, 0x01, 0x1F} {
				unit++
				if !c.Mine(unit) || c.Expired() {
					continue
				}
				in := append([]byte{}, base...)
				in[pos] = bad
				c.R.States++
				for _, l := range []uint32{0, 3072, uint32(pos), uint32(pos + 1), uint32(pos + 2), 4096, 4097, 8192, 65536} {
					try(in, l, "L:long-text-one-binary-byte")
				}
			}
		}
		if c.Mine(unit + 1) {
			for _, l := range []uint32{0, 3072, 4096, 4097, 20000} {
				try(base, l, "L:long-clean-text")
			}
		}
	}

	// B: class alphabet, all strings up to n.
	n := 5
	if c.Thorough() {
		n = 6
	}
	c.Info("B.alphabet", fmt.Sprintf("%x", sigma07))
	c.Info("B.maxlen", fmt.Sprint(n))
	k := len(sigma07)
	var rec func(s []byte)
	rec = func(s []byte) {
		c.R.States++
		try(s, 0, "B:class-alphabet")
		for cut := 1; cut <= len(s); cut++ {
			try(s, uint32(cut), "B:class-alphabet")
		}
		if len(s) == n {
			return
		}
		for _, x := range sigma07 {
			rec(append(s, x))
		}
	}
	unit := uint64(0)
	for i := 0; i < k && !c.Expired(); i++ {
		if c.Mine(unit) { // length-1 strings
			s := append(buf[:0], sigma07[i])
			c.R.States++
			try(s, 0, "B:class-alphabet")
			try(s, 1, "B:class-alphabet")
		}
		unit++
		for j := 0; j < k; j++ {
			if c.Mine(unit) && !c.Expired() {
				rec(append(buf[:0], sigma07[i], sigma07[j]))
			}
			unit++
		}
	}

	// C: position sweeps over text witnesses and BOM-prefixed variants.
	W := corpus(c)
	var texts [][]byte
	for _, w := range W {
		if len(w.Data) == 0 || len(w.Data) > 600 {
			continue
		}
		if inChain(detect(w.Data, 0), "text/plain") {
			texts = append(texts, w.Data)
		}
	}
	c.Info("C.text_witnesses", fmt.Sprint(len(texts)))
	maxW := 160
	if c.Thorough() {
		maxW = 600
	}
	variants := func(w []byte) [][]byte {
		out := [][]byte{w}
		for _, b := range ref.BOMs {
			out = append(out, append(append([]byte{}, b.Bytes...), w...))
		}
		return out
	}
	for wi, w := range texts {
		if c.Expired() {
			break
		}
		if len(w) > maxW {
			c.Note("C.witness-skipped-too-long-for-tier", 1)
			continue
		}
		for vi, v := range variants(w) {
			if !c.Thorough() && vi > 0 && wi%4 != 0 { // quick: BOM variants for every 4th witness
				continue
			}
			for pos := 0; pos < len(v); pos++ {
				if !c.Mine(unit) {
					unit++
					continue
				}
				unit++
				m := append([]byte{}, v...)
				for x := 0; x < 256; x++ {
					m[pos] = byte(x)
					c.R.States++
					try(m, 0, "C:position-sweep")
					try(m, uint32(pos+1), "C:position-sweep")
					if pos > 0 {
						try(m, uint32(pos), "C:position-sweep")
					}
					try(m, uint32(len(m)+1), "C:position-sweep")
				}
			}
		}
	}

	// D: every witness and every prefix <= 600.
	for _, w := range W {
		if !c.Mine(unit) || c.Expired() {
			unit++
			continue
		}
		unit++
		max := len(w.Data)
		if max > 600 {
			max = 600
		}
		for cut := 0; cut <= max; cut++ {
			c.R.States++
			try(w.Data[:cut], 0, "D:witness-prefix")
			try(w.Data, uint32(cut), "D:witness-prefix")
		}
	}
}
