// Package explore is the choice-sequence explorer: a harness body asks
// Choose(n) / Deviate(n) wherever behaviour branches; Run executes the body
// once per choice sequence, depth-first, replaying a prefix and taking
// alternative 0 afterwards (stateless model checking). Deviate's alternatives
// >= 1 cost one deviation each; Run explores everything within the bound.
package explore

import "fmt"

type point struct {
	arity int
	dev   bool
}

// Exec is one execution.
type Exec struct {
	prefix  []int
	Choices []int
	points  []point
	Devs    int
}

// Choose: plain branching, every alternative is explored.
func (x *Exec) Choose(n int) int { return x.pick(n, false) }

// Deviate: alternative 0 is the default environment answer.
func (x *Exec) Deviate(n int) int { return x.pick(n, true) }

func (x *Exec) pick(n int, dev bool) int {
	if n <= 0 {
		panic("explore: arity 0")
	}
	i := len(x.Choices)
	c := 0
	if i < len(x.prefix) {
		c = x.prefix[i]
		if c >= n {
			panic(fmt.Sprintf("DIVERGENCE: replayed choice %d at point %d but arity is %d", c, i, n))
		}
	}
	x.Choices = append(x.Choices, c)
	x.points = append(x.points, point{n, dev})
	if dev && c > 0 {
		x.Devs++
	}
	return c
}

// Stats of one exploration.
type Stats struct {
	Executions  uint64
	Points      uint64 // choice points visited (transitions)
	MaxDevs     int
	Truncated   bool // maxExec hit
	DistinctObs int
}

// Run explores all choice sequences with at most bound deviations (bound < 0:
// unbounded). body returns false to stop the exploration early (violation).
// maxExec > 0 caps the number of executions (reported via Truncated).
func Run(bound int, maxExec uint64, body func(x *Exec) bool) Stats {
	var st Stats
	stack := [][]int{nil}
	for len(stack) > 0 {
		prefix := stack[len(stack)-1]
		stack = stack[:len(stack)-1]
		x := &Exec{prefix: prefix}
		ok := body(x)
		if len(x.Choices) < len(prefix) {
			panic(fmt.Sprintf("DIVERGENCE: execution ended after %d points while replaying a prefix of %d", len(x.Choices), len(prefix)))
		}
		st.Executions++
		st.Points += uint64(len(x.Choices) - len(prefix))
		if x.Devs > st.MaxDevs {
			st.MaxDevs = x.Devs
		}
		if !ok {
			return st
		}
		if maxExec > 0 && st.Executions >= maxExec {
			st.Truncated = true
			return st
		}
		// deviations used before each point
		devs := 0
		for i := 0; i < len(prefix); i++ {
			if x.points[i].dev && x.Choices[i] > 0 {
				devs++
			}
		}
		// push alternatives in reverse so that they pop in ascending order
		var alts [][]int
		for i := len(prefix); i < len(x.Choices); i++ {
			p := x.points[i]
			cost := devs
			if p.dev {
				cost++
			}
			if bound < 0 || cost <= bound {
				for alt := 1; alt < p.arity; alt++ {
					np := make([]int, i+1)
					copy(np, x.Choices[:i])
					np[i] = alt
					alts = append(alts, np)
				}
			}
			// choices after len(prefix) are all 0 in this execution: no deviation accrues
		}
		for i := len(alts) - 1; i >= 0; i-- {
			stack = append(stack, alts[i])
		}
	}
	return st
}

// Replay runs the body once with a recorded choice list.
func Replay(choices []int, body func(x *Exec) bool) bool {
	x := &Exec{prefix: choices}
	return body(x)
}
