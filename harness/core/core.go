// Package core is the shared engine of the verification workers: counters,
// sharding, case evaluation with confirmed (5x) re-execution, replay files,
// deadlines and the result record handed back to the vcheck driver.
//
// It is compiled *inside* the module under test (virtual package injected by
// `go build -overlay`), so that checks may import the internal packages.
package core

import (
	"crypto/sha1"
	"encoding/hex"
	"encoding/json"
	"fmt"
	"os"
	"path/filepath"
	"sort"
	"strings"
	"time"
)

// Case is one explored behaviour in replayable form. Kind selects the
// evaluation function; the remaining fields are its arguments.
type Case struct {
	Kind  string   `json:"kind"`
	In    []byte   `json:"-"`
	InHex string   `json:"input_hex"`
	InStr string   `json:"input_quoted,omitempty"`
	Limit uint32   `json:"limit"`
	Ints  []int    `json:"ints,omitempty"`
	Strs  []string `json:"strs,omitempty"`
}

// EvalFn runs one case against the implementation and its oracle.
// sig identifies the failing oracle clause + shape (used for known findings).
type EvalFn func(c *Case) (ok bool, sig, msg string)

// Violation is a confirmed (5/5) failure.
type Violation struct {
	Property string `json:"property"`
	Sig      string `json:"sig"`
	Msg      string `json:"msg"`
	Replay   string `json:"replay"`
	Count    uint64 `json:"count"`
}

// Result is what a worker writes for the driver.
type Result struct {
	Property    string            `json:"property"`
	Shard       int               `json:"shard"`
	States      uint64            `json:"states"`
	Transitions uint64            `json:"transitions"`
	Evals       uint64            `json:"evaluations"`
	Traces      uint64            `json:"traces"`
	Nontrivial  uint64            `json:"nontrivial"`
	Samples     []any             `json:"samples"`
	Violations  []*Violation      `json:"violations"`
	Caps        []string          `json:"caps"`
	Notes       map[string]uint64 `json:"notes"`
	Info        map[string]string `json:"info"`
	Flaky       []string          `json:"flaky"`
	Fatal       string            `json:"fatal,omitempty"`
}

// Ctx is handed to every check.
type Ctx struct {
	Property  string
	Tier      string // quick | thorough
	Shard     int
	NShards   int
	Seed      int
	ReplayDir string
	Home      string // /verif
	Repo      string // /repo (or scratch tree under test)
	Deadline  time.Time
	Out       string
	R         Result

	kinds    map[string]EvalFn
	bySig    map[string]*Violation
	counter  uint64
	expired  bool
	maxViol  int
	nsamples map[string]int
}

func NewCtx(prop, tier string, shard, nshards, seed int, replayDir, home, repo string, budget time.Duration) *Ctx {
	c := &Ctx{Property: prop, Tier: tier, Shard: shard, NShards: nshards, Seed: seed,
		ReplayDir: replayDir, Home: home, Repo: repo, Deadline: time.Now().Add(budget),
		kinds: map[string]EvalFn{}, bySig: map[string]*Violation{}, maxViol: 400, nsamples: map[string]int{}}
	c.R.Property = prop
	c.R.Shard = shard
	c.R.Notes = map[string]uint64{}
	c.R.Info = map[string]string{}
	return c
}

func (c *Ctx) Thorough() bool { return c.Tier == "thorough" }

// Register binds an evaluation function to a case kind.
func (c *Ctx) Register(kind string, f EvalFn) { c.kinds[kind] = f }

// Mine implements deterministic sharding: unit i (a level-1/level-2 subtree
// of the enumeration) belongs to exactly one worker process. VERIF_SEED only
// rotates the assignment.
func (c *Ctx) Mine(i uint64) bool {
	if c.NShards <= 1 {
		return true
	}
	return int((i+uint64(c.Seed))%uint64(c.NShards)) == c.Shard
}

// Next returns true when the next unit (by call order) belongs to this worker.
func (c *Ctx) Next() bool {
	i := c.counter
	c.counter++
	return c.Mine(i)
}

// Expired reports (and latches) that the internal deadline has passed; the
// caller must stop enumerating and the run is reported as not exhaustive.
func (c *Ctx) Expired() bool {
	if c.expired {
		return true
	}
	if len(c.bySig) >= c.maxViol {
		c.Cap("violation-cap")
		c.expired = true
		return true
	}
	if time.Now().After(c.Deadline) {
		c.expired = true
		c.Cap("deadline")
	}
	return c.expired
}

// Cap records that some bound/budget cut the enumeration short.
func (c *Ctx) Cap(name string) {
	for _, x := range c.R.Caps {
		if x == name {
			return
		}
	}
	c.R.Caps = append(c.R.Caps, name)
}

func (c *Ctx) Note(name string, n uint64) { c.R.Notes[name] += n }
func (c *Ctx) Info(k, v string)           { c.R.Info[k] = v }

// Sample keeps a few actual cases per class for the evidence file.
func (c *Ctx) Sample(class string, v any) {
	if c.nsamples[class] >= 2 || len(c.R.Samples) >= 12 {
		return
	}
	c.nsamples[class]++
	c.R.Samples = append(c.R.Samples, map[string]any{"class": class, "case": v})
}

func (c *Ctx) SampleCase(class string, cs *Case) {
	if c.nsamples[class] >= 2 || len(c.R.Samples) >= 12 {
		return
	}
	c.Sample(class, map[string]any{"kind": cs.Kind, "input": Quote(cs.In), "limit": cs.Limit, "ints": append([]int(nil), cs.Ints...), "strs": append([]string(nil), cs.Strs...)})
}

// Quote renders bytes readably and bounded.
func Quote(b []byte) string {
	if len(b) > 160 {
		return fmt.Sprintf("%q...(%d bytes)", b[:160], len(b))
	}
	return fmt.Sprintf("%q", b)
}

// Check evaluates one case. A failure is re-executed 5 times from its recorded
// form and only reported if it fails identically every time.
func (c *Ctx) Check(cs *Case) bool {
	f := c.kinds[cs.Kind]
	if f == nil {
		panic("unregistered kind " + cs.Kind)
	}
	c.R.Traces++
	ok, sig, msg := c.safeEval(f, cs)
	if ok {
		return true
	}
	// confirm
	for i := 0; i < 5; i++ {
		ok2, sig2, _ := c.safeEval(f, cs)
		if ok2 || sig2 != sig {
			c.R.Flaky = append(c.R.Flaky, fmt.Sprintf("kind=%s sig=%s input=%s limit=%d: not reproducible on re-run %d (got ok=%v sig=%s)", cs.Kind, sig, Quote(cs.In), cs.Limit, i, ok2, sig2))
			return true
		}
	}
	c.report(cs, sig, msg)
	return false
}

func (c *Ctx) safeEval(f EvalFn, cs *Case) (ok bool, sig, msg string) {
	defer func() {
		if r := recover(); r != nil {
			ok, sig, msg = false, "panic-in-eval", fmt.Sprintf("panic: %v", r)
		}
	}()
	return f(cs)
}

// Fail reports a violation found outside the Case/Eval path (e.g. by a child
// process observation). The caller is responsible for confirmation.
func (c *Ctx) Fail(cs *Case, sig, msg string) { c.report(cs, sig, msg) }

func (c *Ctx) report(cs *Case, sig, msg string) {
	if v := c.bySig[sig]; v != nil {
		v.Count++
		return
	}
	cs.InHex = hex.EncodeToString(cs.In)
	if len(cs.In) <= 400 {
		cs.InStr = fmt.Sprintf("%q", cs.In)
	}
	rec := map[string]any{"property": c.Property, "check": c.Property, "sig": sig, "msg": msg, "case": cs}
	b, _ := json.MarshalIndent(rec, "", " ")
	h := sha1.Sum(append([]byte(sig), b...))
	os.MkdirAll(c.ReplayDir, 0o755)
	p := filepath.Join(c.ReplayDir, fmt.Sprintf("%s-%s.json", c.Property, hex.EncodeToString(h[:6])))
	os.WriteFile(p, b, 0o644)
	v := &Violation{Property: c.Property, Sig: sig, Msg: msg, Replay: p, Count: 1}
	c.bySig[sig] = v
	c.R.Violations = append(c.R.Violations, v)
}

// Replay loads a replay file and evaluates it once more.
func (c *Ctx) Replay(path string) (ok bool, sig, msg string, err error) {
	b, err := os.ReadFile(path)
	if err != nil {
		return false, "", "", err
	}
	var rec struct {
		Case *Case `json:"case"`
	}
	if err := json.Unmarshal(b, &rec); err != nil || rec.Case == nil {
		return false, "", "", fmt.Errorf("bad replay file: %v", err)
	}
	cs := rec.Case
	cs.In, err = hex.DecodeString(cs.InHex)
	if err != nil {
		return false, "", "", err
	}
	f := c.kinds[cs.Kind]
	if f == nil {
		return false, "", "", fmt.Errorf("unknown kind %q for %s", cs.Kind, c.Property)
	}
	ok, sig, msg = c.safeEval(f, cs)
	return ok, sig, msg, nil
}

// Write stores the result for the driver.
func (c *Ctx) Write(path string) error {
	sort.Strings(c.R.Caps)
	b, err := json.Marshal(&c.R)
	if err != nil {
		return err
	}
	return os.WriteFile(path, b, 0o644)
}

// SigShape abbreviates an input to a shape usable inside a signature.
func SigShape(b []byte) string {
	s := fmt.Sprintf("%q", b)
	if len(s) > 80 {
		s = s[:80] + "~"
	}
	return strings.ReplaceAll(s, " ", "\\x20")
}

// ---- watchdog (termination oracle for C01; generous, never a timing test) ----

var watchCase atomicCase

type atomicCase struct {
	mu    chan struct{}
	cs    *Case
	since time.Time
	desc  string
}

// Watch arms the watchdog for one evaluation; Unwatch disarms it.
func (c *Ctx) Watch(cs *Case, desc string) {
	watchCase.cs, watchCase.desc, watchCase.since = cs, desc, time.Now()
}
func (c *Ctx) Unwatch() { watchCase.cs = nil }

// StartWatchdog starts a goroutine that, if a single evaluation runs longer
// than max, records a non-termination violation, writes the result file and
// ends the worker (the stuck goroutine cannot be recovered).
func (c *Ctx) StartWatchdog(max time.Duration, out string) {
	go func() {
		for {
			time.Sleep(2 * time.Second)
			cs := watchCase.cs
			if cs != nil && time.Since(watchCase.since) > max {
				cp := *cs
				cp.In = append([]byte{}, cs.In...)
				c.report(&cp, "C01/no-termination/"+watchCase.desc, fmt.Sprintf("evaluation did not return within %s: %s input %s limit %d", max, watchCase.desc, Quote(cp.In), cp.Limit))
				c.Cap("worker-ended-by-watchdog")
				c.Write(out)
				os.Exit(0)
			}
		}
	}()
}
