package ref

// UTF8Info describes a byte string with respect to "valid UTF-8 apart from one
// multi-byte sequence cut off at the very end" (property C11), computed from the
// Unicode table of well-formed UTF-8 byte sequences (Unicode 15, table 3-7).
type UTF8Info struct {
	ValidApartFromCutTail bool // h = v || t, v well-formed, t empty or a proper prefix of a well-formed multi-byte sequence
	TailLen               int  // len(t)
	CompleteNonASCII      int  // number of complete non-ASCII scalars in v
	ASCIITextOnly         bool // every byte in {09,0A,0C,0D,1B,20..7E}: the ASCII members of class T of the file(1) table the property is anchored in that are not binary-data bytes (ESC is text there, DEL is not)
	HasC1                 bool // some byte in 0x80..0x9F
}

// seqLen returns the length of a well-formed sequence starting with lead b0 and
// the allowed range of the second byte; 0 when b0 cannot start a sequence.
func seqLen(b0 byte) (n int, lo, hi byte) {
	switch {
	case b0 <= 0x7F:
		return 1, 0, 0
	case b0 >= 0xC2 && b0 <= 0xDF:
		return 2, 0x80, 0xBF
	case b0 == 0xE0:
		return 3, 0xA0, 0xBF
	case b0 >= 0xE1 && b0 <= 0xEC:
		return 3, 0x80, 0xBF
	case b0 == 0xED:
		return 3, 0x80, 0x9F
	case b0 == 0xEE || b0 == 0xEF:
		return 3, 0x80, 0xBF
	case b0 == 0xF0:
		return 4, 0x90, 0xBF
	case b0 >= 0xF1 && b0 <= 0xF3:
		return 4, 0x80, 0xBF
	case b0 == 0xF4:
		return 4, 0x80, 0x8F
	}
	return 0, 0, 0
}

func AnalyzeUTF8(h []byte) UTF8Info {
	info := UTF8Info{ASCIITextOnly: true}
	for _, b := range h {
		if !(b == 0x09 || b == 0x0A || b == 0x0C || b == 0x0D || b == 0x1B || (b >= 0x20 && b <= 0x7E)) {
			info.ASCIITextOnly = false
		}
		if b >= 0x80 && b <= 0x9F {
			info.HasC1 = true
		}
	}
	i := 0
	for i < len(h) {
		n, lo, hi := seqLen(h[i])
		if n == 0 {
			return info
		}
		if n == 1 {
			i++
			continue
		}
		avail := len(h) - i
		upto := n
		if avail < n {
			upto = avail
		}
		for k := 1; k < upto; k++ {
			c := h[i+k]
			if k == 1 {
				if c < lo || c > hi {
					return info
				}
			} else if c < 0x80 || c > 0xBF {
				return info
			}
		}
		if avail < n {
			info.TailLen = avail
			info.ValidApartFromCutTail = true
			return info
		}
		info.CompleteNonASCII++
		i += n
	}
	info.ValidApartFromCutTail = true
	return info
}
