package ref

// Reference recogniser for the relaxed JSON grammar G of properties C08/C09/C13:
// RFC 8259 plus exactly the three lexical leniencies the property names —
//   - liberal number spelling  -?(D+|D*.D+|D+.D*)([eE][+-]?D+)?
//   - any raw byte (control bytes, non UTF-8) inside strings
//   - one trailing comma before a closing bracket / brace
//
// It is an explicit pushdown automaton over bytes (iterative, own stack), so it
// copes with any nesting depth, and it answers three ways:
//
//	Dead       no document of G starts with these bytes
//	LivePrefix the bytes are a proper prefix of some document of G
//	Complete   the bytes are a document of G
type Status int

const (
	Dead Status = iota
	LivePrefix
	Complete
)

func (s Status) String() string { return [...]string{"Dead", "LivePrefix", "Complete"}[s] }

func isWS(c byte) bool    { return c == ' ' || c == '\t' || c == '\r' || c == '\n' }
func isDigit(c byte) bool { return c >= '0' && c <= '9' }
func isHex(c byte) bool {
	return isDigit(c) || (c >= 'a' && c <= 'f') || (c >= 'A' && c <= 'F')
}

// scanString: b[i] is the byte after the opening quote. Returns next index and
// status: Complete (closed), LivePrefix (ran out), Dead (bad escape).
func scanString(b []byte, i int) (int, Status) {
	for i < len(b) {
		c := b[i]
		i++
		switch c {
		case '"':
			return i, Complete
		case '\\':
			if i >= len(b) {
				return i, LivePrefix
			}
			e := b[i]
			i++
			switch e {
			case '"', '\\', '/', 'b', 'f', 'n', 'r', 't':
			case 'u':
				for k := 0; k < 4; k++ {
					if i >= len(b) {
						return i, LivePrefix
					}
					if !isHex(b[i]) {
						return i, Dead
					}
					i++
				}
			default:
				return i, Dead
			}
		}
	}
	return i, LivePrefix
}

// scanNumber: b[i] is the first byte of the number. Greedy scan of the liberal
// spelling. Complete = a full number ended before b[next] (which exists);
// LivePrefix = input ended inside / at the end of the number.
func scanNumber(b []byte, i int) (int, Status) {
	n := len(b)
	if i < n && b[i] == '-' {
		i++
	}
	digits := 0
	for i < n && isDigit(b[i]) {
		i++
		digits++
	}
	if i < n && b[i] == '.' {
		i++
		for i < n && isDigit(b[i]) {
			i++
			digits++
		}
	}
	if i >= n {
		return i, LivePrefix // more digits / a fraction / an exponent may follow
	}
	if digits == 0 {
		return i, Dead
	}
	if b[i] == 'e' || b[i] == 'E' {
		i++
		if i < n && (b[i] == '+' || b[i] == '-') {
			i++
		}
		ed := 0
		for i < n && isDigit(b[i]) {
			i++
			ed++
		}
		if i >= n {
			return i, LivePrefix
		}
		if ed == 0 {
			return i, Dead
		}
	}
	return i, Complete
}

func scanLiteral(b []byte, i int, lit string) (int, Status) {
	for k := 0; k < len(lit); k++ {
		if i >= len(b) {
			return i, LivePrefix
		}
		if b[i] != lit[k] {
			return i, Dead
		}
		i++
	}
	return i, Complete
}

// Result of a classification with a little structure for the callers.
type JSONInfo struct {
	Status   Status
	First    byte // '[' or '{' or the first byte of a top-level scalar, 0 if none
	MaxDepth int
	// NumberAtEOF is set when the input ended inside or right after a number
	// token at nesting level >= 1 (the number could still grow).
	End int // index where scanning stopped
}

// ClassifyDoc classifies h as a document of G whose top-level value is an
// object or an array (what properties C08/C09 call "a JSON object or array").
func ClassifyDoc(h []byte) JSONInfo { return classify(h, false) }

// ClassifyValue classifies h as a single JSON value of G of any kind,
// surrounded by optional whitespace (one NDJSON line).
func ClassifyValue(h []byte) JSONInfo { return classify(h, true) }

const (
	stValue      = iota // expect a value
	stValueOrEnd        // array: just after '[' or ',' : value or ']'
	stKeyOrEnd          // object: just after '{' or ',' : key or '}'
	stColon             // after key
	stAfterValue        // after a value inside a container: ',' or closer
	stDone              // top-level value finished: only whitespace may follow
)

func classify(b []byte, scalarsOK bool) JSONInfo {
	info := JSONInfo{}
	var stack []byte
	st := stValue
	i := 0
	top := true
	for {
		for i < len(b) && isWS(b[i]) {
			i++
		}
		if i >= len(b) {
			info.End = i
			if st == stDone {
				info.Status = Complete
			} else {
				info.Status = LivePrefix
			}
			return info
		}
		c := b[i]
		switch st {
		case stDone:
			info.End = i
			info.Status = Dead
			return info
		case stValueOrEnd:
			if c == ']' {
				i++
				stack = stack[:len(stack)-1]
				if len(stack) == 0 {
					st = stDone
				} else {
					st = stAfterValue
				}
				continue
			}
			st = stValue
			continue
		case stKeyOrEnd:
			if c == '}' {
				i++
				stack = stack[:len(stack)-1]
				if len(stack) == 0 {
					st = stDone
				} else {
					st = stAfterValue
				}
				continue
			}
			if c != '"' {
				info.End, info.Status = i, Dead
				return info
			}
			ni, s := scanString(b, i+1)
			if s != Complete {
				info.End, info.Status = ni, s
				return info
			}
			i = ni
			st = stColon
			continue
		case stColon:
			if c != ':' {
				info.End, info.Status = i, Dead
				return info
			}
			i++
			st = stValue
			continue
		case stAfterValue:
			topc := stack[len(stack)-1]
			switch {
			case c == ',':
				i++
				if topc == '[' {
					st = stValueOrEnd
				} else {
					st = stKeyOrEnd
				}
			case c == ']' && topc == '[', c == '}' && topc == '{':
				i++
				stack = stack[:len(stack)-1]
				if len(stack) == 0 {
					st = stDone
				} else {
					st = stAfterValue
				}
			default:
				info.End, info.Status = i, Dead
				return info
			}
			continue
		case stValue:
			if top {
				info.First = c
				top = false
				if !scalarsOK && c != '[' && c != '{' {
					info.End, info.Status = i, Dead
					return info
				}
			}
			var ni int
			var s Status
			switch {
			case c == '[':
				i++
				stack = append(stack, '[')
				if len(stack) > info.MaxDepth {
					info.MaxDepth = len(stack)
				}
				st = stValueOrEnd
				continue
			case c == '{':
				i++
				stack = append(stack, '{')
				if len(stack) > info.MaxDepth {
					info.MaxDepth = len(stack)
				}
				st = stKeyOrEnd
				continue
			case c == '"':
				ni, s = scanString(b, i+1)
			case c == 't':
				ni, s = scanLiteral(b, i, "true")
			case c == 'f':
				ni, s = scanLiteral(b, i, "false")
			case c == 'n':
				ni, s = scanLiteral(b, i, "null")
			case c == '-' || c == '.' || isDigit(c):
				ni, s = scanNumber(b, i)
			default:
				info.End, info.Status = i, Dead
				return info
			}
			if s == LivePrefix && len(stack) == 0 && (c == '-' || c == '.' || isDigit(c)) {
				// a top-level number that ran to the end of input: it is a
				// complete value if it has the shape of one, else a live prefix
				if completeNumber(b[i:]) {
					info.End, info.Status = ni, Complete
					return info
				}
			}
			if s != Complete {
				info.End, info.Status = ni, s
				return info
			}
			i = ni
			if len(stack) == 0 {
				st = stDone
			} else {
				st = stAfterValue
			}
			continue
		}
	}
}

// completeNumber reports whether the whole of b, up to trailing whitespace
// (there is none when called), is a liberal number.
func completeNumber(b []byte) bool {
	i, n := 0, len(b)
	if i < n && b[i] == '-' {
		i++
	}
	d := 0
	for i < n && isDigit(b[i]) {
		i++
		d++
	}
	if i < n && b[i] == '.' {
		i++
		for i < n && isDigit(b[i]) {
			i++
			d++
		}
	}
	if d == 0 {
		return false
	}
	if i < n && (b[i] == 'e' || b[i] == 'E') {
		i++
		if i < n && (b[i] == '+' || b[i] == '-') {
			i++
		}
		e := 0
		for i < n && isDigit(b[i]) {
			i++
			e++
		}
		if e == 0 {
			return false
		}
	}
	return i == n
}
