package ref

import (
	"bytes"
	"encoding/json"
)

// Member is one top-level member of a JSON object, in document order,
// duplicates preserved.
type Member struct {
	Key string
	Raw json.RawMessage
}

// TopLevelMembers reads the top-level members of a JSON object with
// encoding/json's token stream. ok is false when doc is not a JSON object.
func TopLevelMembers(doc []byte) (ms []Member, ok bool) {
	dec := json.NewDecoder(bytes.NewReader(doc))
	t, err := dec.Token()
	if err != nil {
		return nil, false
	}
	if d, isD := t.(json.Delim); !isD || d != '{' {
		return nil, false
	}
	for dec.More() {
		kt, err := dec.Token()
		if err != nil {
			return nil, false
		}
		k, isS := kt.(string)
		if !isS {
			return nil, false
		}
		var raw json.RawMessage
		if err := dec.Decode(&raw); err != nil {
			return nil, false
		}
		ms = append(ms, Member{k, raw})
	}
	if _, err := dec.Token(); err != nil {
		return nil, false
	}
	return ms, true
}

var geoNames = []string{"Feature", "FeatureCollection", "Point", "LineString", "Polygon",
	"MultiPoint", "MultiLineString", "MultiPolygon", "GeometryCollection"}

// Subtype is the verdict C10 prescribes.
type Subtype struct{ MIME, Ext, Kind string }

var (
	SubGeo  = Subtype{"application/geo+json", ".geojson", "geo"}
	SubHAR  = Subtype{"application/json", ".har", "har"}
	SubGLTF = Subtype{"model/gltf+json", ".gltf", "gltf"}
	SubJSON = Subtype{"application/json", ".json", "json"}
)

// ExpectedSubtype applies the statement of C10 to a complete JSON document.
func ExpectedSubtype(doc []byte) Subtype {
	ms, ok := TopLevelMembers(doc)
	if !ok {
		return SubJSON
	}
	for _, m := range ms {
		if m.Key != "type" {
			continue
		}
		var s string
		if json.Unmarshal(m.Raw, &s) == nil && len(m.Raw) > 0 && m.Raw[0] == '"' {
			for _, g := range geoNames {
				if s == g {
					return SubGeo
				}
			}
		}
	}
	for _, m := range ms {
		if m.Key != "log" {
			continue
		}
		inner, ok := TopLevelMembers(m.Raw)
		if !ok {
			continue
		}
		for _, im := range inner {
			if im.Key == "version" || im.Key == "creator" || im.Key == "entries" {
				return SubHAR
			}
		}
	}
	for _, m := range ms {
		if m.Key != "asset" {
			continue
		}
		inner, ok := TopLevelMembers(m.Raw)
		if !ok {
			continue
		}
		for _, im := range inner {
			if im.Key != "version" {
				continue
			}
			var s string
			if len(im.Raw) > 0 && im.Raw[0] == '"' && json.Unmarshal(im.Raw, &s) == nil && (s == "1.0" || s == "2.0") {
				return SubGLTF
			}
		}
	}
	return SubJSON
}
