// Package ref holds the reference models (oracles). They are written from the
// property statements and public specifications, never from the code under test.
package ref

import "bytes"

// IsBinaryDataByte is the WHATWG mimesniff "binary data byte" predicate:
// 0x00-0x08, 0x0B, 0x0E-0x1A, 0x1C-0x1F.
func IsBinaryDataByte(b byte) bool {
	switch {
	case b <= 0x08:
		return true
	case b == 0x0B:
		return true
	case b >= 0x0E && b <= 0x1A:
		return true
	case b >= 0x1C && b <= 0x1F:
		return true
	}
	return false
}

// BOMs are the five Unicode byte-order marks with the charset each one names.
var BOMs = []struct {
	Bytes   []byte
	Charset string
}{
	{[]byte{0xEF, 0xBB, 0xBF}, "utf-8"},
	{[]byte{0x00, 0x00, 0xFE, 0xFF}, "utf-32be"},
	{[]byte{0xFF, 0xFE, 0x00, 0x00}, "utf-32le"},
	{[]byte{0xFE, 0xFF}, "utf-16be"},
	{[]byte{0xFF, 0xFE}, "utf-16le"},
}

// HasBOM reports whether h starts with one of the five BOMs.
func HasBOM(h []byte) bool {
	for _, b := range BOMs {
		if bytes.HasPrefix(h, b.Bytes) {
			return true
		}
	}
	return false
}

// BOMCharsets returns every charset whose BOM is a prefix of h (FF FE 00 00 is
// both utf-32le and utf-16le).
func BOMCharsets(h []byte) []string {
	var out []string
	for _, b := range BOMs {
		if bytes.HasPrefix(h, b.Bytes) {
			out = append(out, b.Charset)
		}
	}
	return out
}

// FirstBinary returns the index of the first binary data byte, or -1.
func FirstBinary(h []byte) int {
	for i, b := range h {
		if IsBinaryDataByte(b) {
			return i
		}
	}
	return -1
}

// TextLike is the predicate T(h) of property C07.
func TextLike(h []byte) bool { return HasBOM(h) || FirstBinary(h) < 0 }
