// Package vatomic replaces "sync/atomic" in the packages under test (see vsync).
package vatomic

import (
	"sync/atomic"

	"github.com/gabriel-vasile/mimetype/internal/verifx/sched"
)

func LoadUint32(p *uint32) uint32 {
	if h := sched.Active; h != nil {
		h.Point("atomic.load", p)
	}
	return atomic.LoadUint32(p)
}
func StoreUint32(p *uint32, v uint32) {
	if h := sched.Active; h != nil {
		h.Point("atomic.store", p)
	}
	atomic.StoreUint32(p, v)
}
func AddUint32(p *uint32, d uint32) uint32 {
	if h := sched.Active; h != nil {
		h.Point("atomic.add", p)
	}
	return atomic.AddUint32(p, d)
}
func CompareAndSwapUint32(p *uint32, o, n uint32) bool {
	if h := sched.Active; h != nil {
		h.Point("atomic.cas", p)
	}
	return atomic.CompareAndSwapUint32(p, o, n)
}
func LoadInt32(p *int32) int32 {
	if h := sched.Active; h != nil {
		h.Point("atomic.load", p)
	}
	return atomic.LoadInt32(p)
}
func StoreInt32(p *int32, v int32) {
	if h := sched.Active; h != nil {
		h.Point("atomic.store", p)
	}
	atomic.StoreInt32(p, v)
}
func LoadUint64(p *uint64) uint64 {
	if h := sched.Active; h != nil {
		h.Point("atomic.load", p)
	}
	return atomic.LoadUint64(p)
}
func StoreUint64(p *uint64, v uint64) {
	if h := sched.Active; h != nil {
		h.Point("atomic.store", p)
	}
	atomic.StoreUint64(p, v)
}
func LoadInt64(p *int64) int64 {
	if h := sched.Active; h != nil {
		h.Point("atomic.load", p)
	}
	return atomic.LoadInt64(p)
}
func StoreInt64(p *int64, v int64) {
	if h := sched.Active; h != nil {
		h.Point("atomic.store", p)
	}
	atomic.StoreInt64(p, v)
}
