// Package vatomic replaces "sync/atomic" in the packages under test (see vsync).
package vatomic

import (
	"sync/atomic"
	"unsafe"

	"github.com/gabriel-vasile/mimetype/internal/verifx/sched"
)

func LoadUint32(p *uint32) uint32 {
	if h := sched.Active; h != nil {
		h.Point("atomic.load", p)
	}
	return atomic.LoadUint32(p)
}
func StoreUint32(p *uint32, v uint32) {
	if h := sched.Active; h != nil {
		h.Point("atomic.store", p)
	}
	atomic.StoreUint32(p, v)
}
func AddUint32(p *uint32, d uint32) uint32 {
	if h := sched.Active; h != nil {
		h.Point("atomic.add", p)
	}
	return atomic.AddUint32(p, d)
}
func CompareAndSwapUint32(p *uint32, o, n uint32) bool {
	if h := sched.Active; h != nil {
		h.Point("atomic.cas", p)
	}
	return atomic.CompareAndSwapUint32(p, o, n)
}
func LoadInt32(p *int32) int32 {
	if h := sched.Active; h != nil {
		h.Point("atomic.load", p)
	}
	return atomic.LoadInt32(p)
}
func StoreInt32(p *int32, v int32) {
	if h := sched.Active; h != nil {
		h.Point("atomic.store", p)
	}
	atomic.StoreInt32(p, v)
}
func LoadUint64(p *uint64) uint64 {
	if h := sched.Active; h != nil {
		h.Point("atomic.load", p)
	}
	return atomic.LoadUint64(p)
}
func StoreUint64(p *uint64, v uint64) {
	if h := sched.Active; h != nil {
		h.Point("atomic.store", p)
	}
	atomic.StoreUint64(p, v)
}
func LoadInt64(p *int64) int64 {
	if h := sched.Active; h != nil {
		h.Point("atomic.load", p)
	}
	return atomic.LoadInt64(p)
}
func StoreInt64(p *int64, v int64) {
	if h := sched.Active; h != nil {
		h.Point("atomic.store", p)
	}
	atomic.StoreInt64(p, v)
}

// Typed atomics (sync/atomic since Go 1.19): same operations, each one a
// scheduling point.

func point(kind string, obj any) {
	if h := sched.Active; h != nil {
		h.Point(kind, obj)
	}
}

type Pointer[T any] struct{ v atomic.Pointer[T] }

func (x *Pointer[T]) Load() *T     { point("atomic.load", x); return x.v.Load() }
func (x *Pointer[T]) Store(p *T)   { point("atomic.store", x); x.v.Store(p) }
func (x *Pointer[T]) Swap(p *T) *T { point("atomic.swap", x); return x.v.Swap(p) }
func (x *Pointer[T]) CompareAndSwap(o, n *T) bool {
	point("atomic.cas", x)
	return x.v.CompareAndSwap(o, n)
}

type Bool struct{ v atomic.Bool }

func (x *Bool) Load() bool       { point("atomic.load", x); return x.v.Load() }
func (x *Bool) Store(b bool)     { point("atomic.store", x); x.v.Store(b) }
func (x *Bool) Swap(b bool) bool { point("atomic.swap", x); return x.v.Swap(b) }
func (x *Bool) CompareAndSwap(o, n bool) bool {
	point("atomic.cas", x)
	return x.v.CompareAndSwap(o, n)
}

type Int32 struct{ v atomic.Int32 }

func (x *Int32) Load() int32        { point("atomic.load", x); return x.v.Load() }
func (x *Int32) Store(n int32)      { point("atomic.store", x); x.v.Store(n) }
func (x *Int32) Add(d int32) int32  { point("atomic.add", x); return x.v.Add(d) }
func (x *Int32) Swap(n int32) int32 { point("atomic.swap", x); return x.v.Swap(n) }
func (x *Int32) CompareAndSwap(o, n int32) bool {
	point("atomic.cas", x)
	return x.v.CompareAndSwap(o, n)
}

type Int64 struct{ v atomic.Int64 }

func (x *Int64) Load() int64        { point("atomic.load", x); return x.v.Load() }
func (x *Int64) Store(n int64)      { point("atomic.store", x); x.v.Store(n) }
func (x *Int64) Add(d int64) int64  { point("atomic.add", x); return x.v.Add(d) }
func (x *Int64) Swap(n int64) int64 { point("atomic.swap", x); return x.v.Swap(n) }
func (x *Int64) CompareAndSwap(o, n int64) bool {
	point("atomic.cas", x)
	return x.v.CompareAndSwap(o, n)
}

type Uint32 struct{ v atomic.Uint32 }

func (x *Uint32) Load() uint32         { point("atomic.load", x); return x.v.Load() }
func (x *Uint32) Store(n uint32)       { point("atomic.store", x); x.v.Store(n) }
func (x *Uint32) Add(d uint32) uint32  { point("atomic.add", x); return x.v.Add(d) }
func (x *Uint32) Swap(n uint32) uint32 { point("atomic.swap", x); return x.v.Swap(n) }
func (x *Uint32) CompareAndSwap(o, n uint32) bool {
	point("atomic.cas", x)
	return x.v.CompareAndSwap(o, n)
}

type Uint64 struct{ v atomic.Uint64 }

func (x *Uint64) Load() uint64         { point("atomic.load", x); return x.v.Load() }
func (x *Uint64) Store(n uint64)       { point("atomic.store", x); x.v.Store(n) }
func (x *Uint64) Add(d uint64) uint64  { point("atomic.add", x); return x.v.Add(d) }
func (x *Uint64) Swap(n uint64) uint64 { point("atomic.swap", x); return x.v.Swap(n) }
func (x *Uint64) CompareAndSwap(o, n uint64) bool {
	point("atomic.cas", x)
	return x.v.CompareAndSwap(o, n)
}

type Value struct{ v atomic.Value }

func (x *Value) Load() any      { point("atomic.load", x); return x.v.Load() }
func (x *Value) Store(v any)    { point("atomic.store", x); x.v.Store(v) }
func (x *Value) Swap(v any) any { point("atomic.swap", x); return x.v.Swap(v) }
func (x *Value) CompareAndSwap(o, n any) bool {
	point("atomic.cas", x)
	return x.v.CompareAndSwap(o, n)
}

func AddInt32(p *int32, d int32) int32     { point("atomic.add", p); return atomic.AddInt32(p, d) }
func AddInt64(p *int64, d int64) int64     { point("atomic.add", p); return atomic.AddInt64(p, d) }
func AddUint64(p *uint64, d uint64) uint64 { point("atomic.add", p); return atomic.AddUint64(p, d) }
func SwapInt32(p *int32, n int32) int32    { point("atomic.swap", p); return atomic.SwapInt32(p, n) }
func SwapInt64(p *int64, n int64) int64    { point("atomic.swap", p); return atomic.SwapInt64(p, n) }
func SwapUint32(p *uint32, n uint32) uint32 {
	point("atomic.swap", p)
	return atomic.SwapUint32(p, n)
}
func SwapUint64(p *uint64, n uint64) uint64 {
	point("atomic.swap", p)
	return atomic.SwapUint64(p, n)
}
func CompareAndSwapInt32(p *int32, o, n int32) bool {
	point("atomic.cas", p)
	return atomic.CompareAndSwapInt32(p, o, n)
}
func CompareAndSwapInt64(p *int64, o, n int64) bool {
	point("atomic.cas", p)
	return atomic.CompareAndSwapInt64(p, o, n)
}
func CompareAndSwapUint64(p *uint64, o, n uint64) bool {
	point("atomic.cas", p)
	return atomic.CompareAndSwapUint64(p, o, n)
}
func LoadPointer(p *unsafe.Pointer) unsafe.Pointer {
	point("atomic.load", p)
	return atomic.LoadPointer(p)
}
func StorePointer(p *unsafe.Pointer, v unsafe.Pointer) {
	point("atomic.store", p)
	atomic.StorePointer(p, v)
}
func SwapPointer(p *unsafe.Pointer, v unsafe.Pointer) unsafe.Pointer {
	point("atomic.swap", p)
	return atomic.SwapPointer(p, v)
}
func CompareAndSwapPointer(p *unsafe.Pointer, o, n unsafe.Pointer) bool {
	point("atomic.cas", p)
	return atomic.CompareAndSwapPointer(p, o, n)
}
func LoadUintptr(p *uintptr) uintptr     { point("atomic.load", p); return atomic.LoadUintptr(p) }
func StoreUintptr(p *uintptr, v uintptr) { point("atomic.store", p); atomic.StoreUintptr(p, v) }
