//go:build verif

// This file is NOT part of gabriel-vasile/mimetype. It is injected into the
// package by `go build -overlay` (see /verif/cmd/vcheck) and only compiled with
// the build tag `verif`. It exposes read access to the detector tree, a
// snapshot/restore of the children slices and a detector wrapper. It relies only
// on identifiers that the repository's own tests already pin.
package mimetype

import "sync/atomic"

// VerifNode describes one node of the detector tree.
type VerifNode struct {
	Name     string
	Ext      string
	Aliases  []string
	Parent   int // index into the slice, -1 for the root
	Children []int
	Det      func([]byte, uint32) bool
	Ptr      *MIME
}

// VerifNodes returns the tree in pre-order (index 0 is the root).
func VerifNodes() []VerifNode {
	mu.RLock()
	defer mu.RUnlock()
	var out []VerifNode
	var walk func(m *MIME, parent int) int
	walk = func(m *MIME, parent int) int {
		idx := len(out)
		out = append(out, VerifNode{Name: m.mime, Ext: m.extension, Aliases: m.aliases, Parent: parent, Det: m.detector, Ptr: m})
		for _, c := range m.children {
			ci := walk(c, idx)
			out[idx].Children = append(out[idx].Children, ci)
		}
		return idx
	}
	walk(root, -1)
	return out
}

type verifSnap struct {
	m        *MIME
	children []*MIME
	det      func([]byte, uint32) bool
}

var verifPristine []verifSnap

// VerifSnapshot records the children slices and detectors of every node
// currently in the tree (call once, before any Extend).
func VerifSnapshot() {
	mu.Lock()
	defer mu.Unlock()
	verifPristine = nil
	for _, m := range root.flatten() {
		verifPristine = append(verifPristine, verifSnap{m, append([]*MIME(nil), m.children...), m.detector})
	}
}

// VerifRestore puts the tree back into the snapshotted shape.
func VerifRestore() {
	mu.Lock()
	defer mu.Unlock()
	for _, s := range verifPristine {
		s.m.children = append([]*MIME(nil), s.children...)
		s.m.detector = s.det
	}
}

// VerifWrapDetectors replaces every node's detector d by wrap(index, d),
// index being the pre-order index reported by VerifNodes. It returns a
// function that undoes the wrapping.
func VerifWrapDetectors(wrap func(idx int, name string, d func([]byte, uint32) bool) func([]byte, uint32) bool) (undo func()) {
	mu.Lock()
	defer mu.Unlock()
	nodes := root.flatten()
	orig := make([]func([]byte, uint32) bool, len(nodes))
	for i, m := range nodes {
		orig[i] = m.detector
		m.detector = wrap(i, m.mime, m.detector)
	}
	return func() {
		mu.Lock()
		defer mu.Unlock()
		for i, m := range nodes {
			m.detector = orig[i]
		}
	}
}

// VerifLimit reads the current read limit.
func VerifLimit() uint32 { return atomic.LoadUint32(&readLimit) }

// VerifRoot returns the live root node (for Extend on the root via a value).
func VerifRoot() *MIME { return root }
