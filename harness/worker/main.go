// Command worker is one verification worker process. It is built inside the
// module under test by the vcheck driver (overlay) and explores the shard of a
// property's bounded space assigned to it.
package main

import (
	"flag"
	"fmt"
	"os"
	"runtime/debug"
	"time"

	"github.com/gabriel-vasile/mimetype/internal/verifx/checks"
	"github.com/gabriel-vasile/mimetype/internal/verifx/core"
)

func main() {
	if len(os.Args) < 2 {
		fmt.Fprintln(os.Stderr, "usage: worker <property> [flags]")
		os.Exit(2)
	}
	prop := os.Args[1]
	fs := flag.NewFlagSet("worker", flag.ExitOnError)
	tier := fs.String("tier", "quick", "quick|thorough")
	shard := fs.Int("shard", 0, "")
	nshards := fs.Int("nshards", 1, "")
	seed := fs.Int("seed", 0, "")
	out := fs.String("out", "", "result file")
	replayDir := fs.String("replaydir", "/verif/replays", "")
	home := fs.String("home", "/verif", "")
	repo := fs.String("repo", "/repo", "")
	replay := fs.String("replay", "", "replay one recorded case")
	budget := fs.Duration("budget", 120*time.Second, "internal deadline")
	sub := fs.String("sub", "", "sub-command for child-process checks")
	fs.Parse(os.Args[2:])

	ck := checks.Registry[prop]
	if ck == nil {
		fmt.Fprintf(os.Stderr, "unknown property %s\n", prop)
		os.Exit(2)
	}
	ctx := core.NewCtx(prop, *tier, *shard, *nshards, *seed, *replayDir, *home, *repo, *budget)
	if *sub != "" {
		os.Exit(checks.Sub(ctx, *sub, fs.Args()))
	}
	ctx.Out = *out
	ck.Setup(ctx)
	if *replay != "" {
		ok, sig, msg, err := ctx.Replay(*replay)
		if err != nil {
			fmt.Fprintln(os.Stderr, "replay error:", err)
			os.Exit(2)
		}
		if ok {
			fmt.Printf("REPLAY-OK property=%s (the recorded case satisfies the oracle on this tree)\n", prop)
			os.Exit(0)
		}
		fmt.Printf("REPLAY-FAIL property=%s sig=%s\n%s\n", prop, sig, msg)
		fmt.Printf("VIOLATION property=%s replay=%s\n", prop, *replay)
		os.Exit(1)
	}
	func() {
		defer func() {
			if r := recover(); r != nil {
				ctx.R.Fatal = fmt.Sprintf("worker panic: %v\n%s", r, debug.Stack())
			}
		}()
		ck.Run(ctx)
	}()
	if *out != "" {
		if err := ctx.Write(*out); err != nil {
			fmt.Fprintln(os.Stderr, err)
			os.Exit(2)
		}
	}
}
